//go:build !verif

package props

import (
	"encoding/json"
	"fmt"
	"runtime"

	"verif/mc/core"
	"verif/mc/dyn"
)

// C18 — steady-state operations do not allocate.  Runs in the plain binary: the
// unmodified package with the real sync.Pool.

type c18Case struct {
	Op      string // sample | appendsample | appendsample-full | read | write | rstriped | wstriped | conv | append | selfappend | channel | slice | pool
	S, D    string // element types (S: slice/source, D: buffer/destination)
	C, L    int    // channels, frames
	Spare   bool   // buffer is a window with spare capacity behind it
	Variant int    // branch selector: slice length class (0 equal, 1 short, 2 long, 3 empty/nil)
}

const c18Runs = 10

func c18Measure(cs c18Case) (allocs float64, bound float64, skipped bool) {
	s, d := typeByName(cs.S), typeByName(cs.D)
	C, L := cs.C, cs.L
	mkBuf := func(t, length int) dyn.Buf {
		if cs.Spare {
			return dyn.Alloc(t, al(C, length+2, length+2)).Slice(1, 1+length)
		}
		return dyn.Alloc(t, al(C, length, length))
	}
	slen := func(n int) int {
		switch cs.Variant {
		case 1:
			return n / 2
		case 2:
			return n + 3
		case 3:
			return 0
		}
		return n
	}
	one := dyn.Tok(d, 1)
	switch cs.Op {
	case "sample":
		if L == 0 {
			return 0, 0, true
		}
		b := mkBuf(d, L)
		return dyn.AllocsPerRun(c18Runs, func() { b.SetSample(C*L-1, b.Sample(0)) }), 0, false
	case "appendsample":
		b := dyn.Alloc(d, al(C, 0, 4096))
		if cs.Variant == 1 {
			// an empty window over storage that still holds the (non-zero) samples of an earlier use
			fb := full(b)
			for i := 0; i < fb.Len(); i++ {
				fb.SetSample(i, dyn.Tok(d, tk(int64(i+1))))
			}
			// (an allocation on every k-th call only is less than one per call and testing.AllocsPerRun
			// truncates: count the allocations of 64 calls in a row instead; minimum of 3 windows)
			best := uint64(1 << 30)
			for k := 0; k < 3; k++ {
				w := b.Slice(0, 0)
				if m := dyn.MallocsDuring(func() {
					for i := 0; i < 64; i++ {
						w.AppendSample(one)
					}
				}); m < best {
					best = m
				}
			}
			return float64(best), 0, false
		}
		return dyn.AllocsPerRun(c18Runs, func() { b.AppendSample(one) }), 0, false
	case "appendsample-full":
		b := mkBuf(d, L)
		if cs.Spare {
			b = dyn.Alloc(d, al(C, L, L))
		}
		if cs.Variant == 1 {
			// the very first call on a fresh full buffer, without the warm-up call of AllocsPerRun (a buffer
			// that grows instead of dropping the sample allocates on that call only); minimum over 4 buffers
			best := uint64(1 << 30)
			for k := 0; k < 4; k++ {
				fb := dyn.Alloc(d, al(C, L, L))
				if cs.Spare {
					fb = dyn.Alloc(d, al(C, L+2, L+2)).Slice(2, 2+L) // a full window at the end of its parent
				}
				if m := dyn.MallocsDuring(func() { fb.AppendSample(one) }); m < best {
					best = m
				}
			}
			return float64(best), 0, false
		}
		return dyn.AllocsPerRun(c18Runs, func() { b.AppendSample(one) }), 0, false
	case "read":
		b := mkBuf(s, L)
		out := dyn.NewSl(d, slen(C*L))
		if cs.Variant == 3 {
			out = dyn.NilSl(d)
		}
		return dyn.AllocsPerRun(c18Runs, func() { dyn.Read(b, out) }), 0, false
	case "write":
		b := mkBuf(d, L)
		in := dyn.NewSl(s, slen(C*L))
		if cs.Variant == 3 {
			in = dyn.NilSl(s)
		}
		return dyn.AllocsPerRun(c18Runs, func() { dyn.Write(in, b) }), 0, false
	case "rstriped", "wstriped":
		lens := make([]int, C)
		for i := range lens {
			lens[i] = slen(L)
			if cs.Variant == 3 && i%2 == 0 {
				lens[i] = -1 // nil channel
			}
			if cs.Variant == 1 && i == C-1 {
				lens[i] = L // uneven
			}
		}
		if cs.Op == "rstriped" {
			b := mkBuf(s, L)
			st := dyn.NewStriped(d, lens)
			return dyn.AllocsPerRun(c18Runs, func() { dyn.ReadStripedP(b, st) }), 0, false
		}
		b := mkBuf(d, L)
		st := dyn.NewStriped(s, lens)
		return dyn.AllocsPerRun(c18Runs, func() { dyn.WriteStripedP(st, b) }), 0, false
	case "conv":
		src := mkBuf(s, slen(L))
		dst := mkBuf(d, L)
		// the source holds a mix of values (every branch of a conversion: negative, fractional, clipped,
		// extreme, zero), not silence
		vals := valSpecials(s)
		if dyn.Types[s].Kind == dyn.Float {
			vals = append(vals, dyn.F(-0.5), dyn.F(0.25), dyn.F(-1.5), dyn.F(2), dyn.F(-0.001), dyn.F(0.999))
		}
		for i := 0; i < src.Len(); i++ {
			src.SetSample(i, vals[(i*7+i/len(vals))%len(vals)])
		}
		return dyn.AllocsPerRun(c18Runs, func() { dyn.Conv(src, dst) }), 0, false
	case "conv-alt":
		// one source converted into destinations of two element types alternately (state kept between calls
		// for the last type pair only)
		src := mkBuf(s, L)
		d1 := mkBuf(d, L)
		d2 := mkBuf(cs.Variant, L) // Variant holds the second destination type
		for i := 0; i < src.Len(); i++ {
			src.SetSample(i, dyn.Tok(s, tk(int64(i+1))))
		}
		return dyn.AllocsPerRun(c18Runs, func() { dyn.Conv(src, d1); dyn.Conv(src, d2) }), 0, false
	case "conv-aliased":
		// source and destination share storage (same element type): the very same buffer (variant 0),
		// the destination one frame in front of the source (1), one frame behind it (2)
		if L < 2 {
			return 0, 0, true
		}
		parent := mkBuf(s, L)
		src, dst := parent, parent
		switch cs.Variant {
		case 1:
			src, dst = parent.Slice(1, L), parent.Slice(0, L-1)
		case 2:
			src, dst = parent.Slice(0, L-1), parent.Slice(1, L)
		}
		return dyn.AllocsPerRun(c18Runs, func() { dyn.Conv(src, dst) }), 0, false
	case "append":
		// appending within capacity: destination is reset to its start before every call
		spare := 2 // variant 1: the second append fills the capacity exactly
		if cs.Variant == 1 {
			spare = 1
		}
		parent := dyn.Alloc(d, al(C, 2*L+spare, 2*L+spare))
		src := dyn.Alloc(d, al(C, L, L))
		holder := []dyn.Buf{nil}
		var total float64
		for r := 0; r < 5; r++ {
			holder[0] = parent.Slice(0, 1)
			dst := holder[0]
			total += dyn.AllocsPerRun(1, func() { dst.Append(src) }) // AllocsPerRun(1) = warm-up + 1 run: two appends of L frames fit
		}
		return total / 5, 0, false
	case "selfappend":
		parent := dyn.Alloc(d, al(C, 4*L+4, 4*L+4))
		var total float64
		for r := 0; r < 5; r++ {
			dst := parent.Slice(0, L)
			total += dyn.AllocsPerRun(1, func() { dst.Append(dst) }) // L -> 2L -> 4L frames, within capacity
		}
		return total / 5, 0, false
	case "channel":
		if L == 0 {
			return 0, 0, true
		}
		b := mkBuf(d, L)
		if cs.Variant == 1 {
			// a partly filled last frame (one sample of a new frame)
			if C < 2 {
				return 0, 0, true
			}
			b = dyn.Alloc(d, al(C, L, L+1))
			b.AppendSample(one)
			return b.AllocsChannel(0, c18Runs), 0, false
		}
		return b.AllocsChannel(C-1, c18Runs), 0, false
	case "slice":
		b := mkBuf(d, L)
		switch cs.Variant {
		case 1: // the window ends beyond the length, inside the spare capacity
			b = dyn.Alloc(d, al(C, L/2, L+2))
			return b.AllocsSlice(0, L+1, c18Runs), 1, false
		case 2: // the window begins beyond the length
			b = dyn.Alloc(d, al(C, L/2, L+2))
			return b.AllocsSlice(L/2+1, L+2, c18Runs), 1, false
		case 3: // an inner window
			if L < 2 {
				return 0, 0, true
			}
			return b.AllocsSlice(1, L-1, c18Runs), 1, false
		case 4: // an empty window inside the samples
			if L < 2 {
				return 0, 0, true
			}
			return b.AllocsSlice(L/2, L/2, c18Runs), 1, false
		}
		return b.AllocsSlice(0, L, c18Runs), 1, false
	case "pool":
		p := dyn.NewPool(d, al(C, 0, L))
		runs := 100
		if C*L > 1<<20 {
			runs = 10 // every cycle clears the whole buffer
		}
		if cs.Variant == 1 { // through a copy of the allocator value, passed by value, made before its first use
			return p.AllocsCycleByValue(runs), 0, false
		}
		if cs.Variant == 2 { // ... made after a first Get/Put round
			p.Put(p.Get())
			return p.AllocsCycleByValue(runs), 0, false
		}
		if cs.Variant == 3 { // two buffers held together and put back one after the other
			if C*L > 1<<16 {
				return 0, 0, true
			}
			return p.AllocsCyclePair(runs), 0, false
		}
		if cs.Variant == 4 { // six buffers held together, then all put back
			if C*L > 1<<14 {
				return 0, 0, true
			}
			return p.AllocsCycleMany(runs), 0, false
		}
		return p.AllocsCycle(runs), 0, false
	}
	panic("unknown op " + cs.Op)
}

func c18Run(cs c18Case) (fs []F, skipped bool) {
	a, bound, skipped := c18Measure(cs)
	if skipped {
		return nil, true
	}
	if a > bound {
		// a deterministic allocation survives re-measurement, background noise does not
		min := a
		for i := 0; i < 5; i++ {
			if x, _, _ := c18Measure(cs); x < min {
				min = x
			}
		}
		a = min
	}
	if a > bound {
		fn := cs.Op
		if cs.Op == "conv" || cs.Op == "conv-aliased" {
			fn = dyn.ConvName(typeByName(cs.S), typeByName(cs.D))
		}
		fs = append(fs, core.Failf("allocs/"+fn, "%+v: %.0f heap allocation(s) per call, allowed %.0f", cs, a, bound))
	}
	return fs, false
}

func init() {
	core.Register(&core.Prop{
		ID: "C18", Level: "exploration", Design: "§5 C18",
		Run: func(c *core.Ctx) {
			old := runtime.GOMAXPROCS(1)
			defer runtime.GOMAXPROCS(old)
			var cases []c18Case
			lens := []int{0, 1, 64, 1100}
			if !c.Quick() {
				lens = []int{0, 1, 64, 1100, 4096}
			}
			for _, C := range []int{1, 2, 8} {
				for _, L := range lens {
					for _, spare := range []bool{false, true} {
						for t := 0; t < dyn.NB; t++ {
							for _, op := range []string{"sample", "appendsample", "appendsample-full", "append", "selfappend", "channel", "slice", "pool"} {
								if (op == "appendsample" || op == "pool") && spare {
									continue
								}

								cases = append(cases, c18Case{Op: op, S: tn(t), D: tn(t), C: C, L: L, Spare: spare})
								if op == "appendsample" {
									cases = append(cases, c18Case{Op: op, S: tn(t), D: tn(t), C: C, L: L, Variant: 1})
								}
								if op == "channel" && !spare {
									cases = append(cases, c18Case{Op: op, S: tn(t), D: tn(t), C: C, L: L, Variant: 1})
								}
								if op == "appendsample-full" {
									cases = append(cases, c18Case{Op: op, S: tn(t), D: tn(t), C: C, L: L, Spare: spare, Variant: 1})
								}
								if op == "append" {
									cases = append(cases, c18Case{Op: op, S: tn(t), D: tn(t), C: C, L: L, Spare: spare, Variant: 1})
								}
								if op == "slice" {
									for v := 1; v <= 4; v++ {
										if v >= 3 || !spare {
											cases = append(cases, c18Case{Op: op, S: tn(t), D: tn(t), C: C, L: L, Spare: spare, Variant: v})
										}
									}
								}
								if op == "pool" {
									cases = append(cases, c18Case{Op: op, S: tn(t), D: tn(t), C: C, L: L, Variant: 1}, c18Case{Op: op, S: tn(t), D: tn(t), C: C, L: L, Variant: 2}, c18Case{Op: op, S: tn(t), D: tn(t), C: C, L: L, Variant: 3}, c18Case{Op: op, S: tn(t), D: tn(t), C: C, L: L, Variant: 4})
								}
							}
						}
						if C == 2 && !spare && (L == 64 || L == 1100) { // one source, two destination types of the same kind, alternately
							for s := 0; s < dyn.NB; s++ {
								for d1 := 0; d1 < dyn.NB; d1++ {
									for d2 := d1 + 1; d2 < dyn.NB; d2++ {
										if dyn.Types[d1].Kind == dyn.Types[d2].Kind {
											cases = append(cases, c18Case{Op: "conv-alt", S: tn(s), D: tn(d1), C: C, L: L, Variant: d2})
										}
									}
								}
							}
						}
						for t := 0; t < dyn.NB; t++ { // conversions between windows of one buffer
							for v := 0; v <= 2; v++ {
								cases = append(cases, c18Case{Op: "conv-aliased", S: tn(t), D: tn(t), C: C, L: L, Spare: spare, Variant: v})
							}
						}
						for s := 0; s < dyn.NB; s++ {
							for d := 0; d < dyn.NB; d++ {
								if L >= 1100 && (C != 2 || spare) && s != d && (c.Quick() || L == 4096) {
									continue // the longest lengths for all pairs at one shape only
								}
								for v := 0; v <= 3; v++ {
									for _, op := range []string{"read", "write", "rstriped", "wstriped"} {
										cases = append(cases, c18Case{Op: op, S: tn(s), D: tn(d), C: C, L: L, Spare: spare, Variant: v})
									}
									if v <= 2 {
										cases = append(cases, c18Case{Op: "conv", S: tn(s), D: tn(d), C: C, L: L, Spare: spare, Variant: v})
									}
								}
							}
						}
					}
				}
			}
			for t := 0; t < dyn.NB; t++ { // large pools (tens of kilobytes and more)
				for _, ck := range [][2]int{{8, 4096}, {2, 4500}, {1, 20000}} {
					cases = append(cases, c18Case{Op: "pool", S: tn(t), D: tn(t), C: ck[0], L: ck[1]})
				}
				// megabytes: pools may treat big buffers differently (size thresholds in bytes)
				for _, ck := range [][2]int{{8, 20000}, {1, 1<<20 + 3}, {2, 1<<21 + 1}, {3, 1400001}} {
					cases = append(cases, c18Case{Op: "pool", S: tn(t), D: tn(t), C: ck[0], L: ck[1]})
				}
			}
			for _, t := range []int{dyn.Int8, dyn.Int16, dyn.Float64} { // up to 128 MiB
				cases = append(cases, c18Case{Op: "pool", S: tn(t), D: tn(t), C: 1, L: 1<<24 + 5})
			}
			var n, nt int64
			for _, cs := range cases {
				if c.Expired() {
					break
				}
				fs, skipped := c18Run(cs)
				if skipped {
					continue
				}
				n++
				if cs.L > 0 {
					nt++
				}
				if len(fs) > 0 {
					c.Fail(cs, fs...)
				}
			}
			c.Eval(n, nt)
			c.Sample(cases[0])
			c.Sample(cases[len(cases)/2])
			c.Sample(cases[len(cases)-1])
			c.Set("rule", "every configuration of {Sample/SetSample, AppendSample (not full / full, also the very first call on a fresh full buffer, counted without a warm-up call), Append within capacity (also filling it exactly), self-Append within capacity, Channel view + all its methods, Slice, pool Get/AppendSample/Put cycle on the real sync.Pool (through a pointer, and through copies of the allocator value passed by value, made before and after its first use)} x 13 types and {Read, Write, ReadStriped, WriteStriped (slices equal/short+uneven/long/empty+nil), the nine conversions (source equal/shorter/longer; same-type conversions also between overlapping windows of one buffer and in place)} x 169 type pairs, x C in {1,2,8} x lengths {0,1,64,1100[,4096]}, pools up to 8 x 4096 and 1 x 20000 samples for every case shape, plus pools of 160000 .. 4.2 million samples for all 13 types and of 2^24+5 samples (16-128 MiB) for three x plain buffer / window with spare capacity; monitor: testing.AllocsPerRun (GOMAXPROCS 1, warm-up call, integer mean), a non-zero reading is re-measured 5x and the minimum taken; bound 0, Slice <= 1; non-trivial = length > 0; configurations distinct by construction")
			c.Assume("allocation sites are static: which are reached depends only on instantiation and branch, both enumerated", "not run under -race (race-mode sync.Pool drops items at random)", "runs in the plain build (no overlay): the unmodified package and the real sync.Pool")
		},
		RunCase: func(c *core.Ctx, raw json.RawMessage) []F {
			old := runtime.GOMAXPROCS(1)
			defer runtime.GOMAXPROCS(old)
			fs, _ := c18Run(decode[c18Case](raw))
			return fs
		},
	})
}

var _ = fmt.Sprint
