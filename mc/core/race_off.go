//go:build !race

package core

const RaceEnabled = false

func RaceErrors() int { return 0 }
