// Package dyn is a dynamically typed facade over the generic API of pipelined.dev/signal,
// so that the explorers and oracles can be written once and run over all 13 element
// types (plus named types) and all 169 type pairs selected at run time.  Every method
// forwards to exactly one call of the real library.
package dyn

import (
	"fmt"
	"math"
	"sync/atomic"
	"unsafe"

	"golang.org/x/exp/constraints"
	"pipelined.dev/signal"
)

type Kind uint8

const (
	Signed Kind = iota
	Unsigned
	Float
)

func (k Kind) String() string { return [...]string{"signed", "unsigned", "float"}[k] }

// Type describes an element type.
type Type struct {
	ID    int
	Name  string
	Kind  Kind
	Bits  int // bit width of the type
	Named bool
}

// NB is the number of built-in element types; Types[NB:] are named types over them.
const NB = 13

var Types []Type

// Val is a sample value: the kind plus the raw bits (two's complement sign-extended
// for signed, zero-extended for unsigned, IEEE-754 binary64 for floats; a float32 is
// widened exactly).
type Val struct {
	K Kind
	B uint64
}

func I(i int64) Val   { return Val{Signed, uint64(i)} }
func U(u uint64) Val  { return Val{Unsigned, u} }
func F(f float64) Val { return Val{Float, math.Float64bits(f)} }

// Tok returns the value as a small integer (used for token values only).
func (v Val) Tok() int64 {
	switch v.K {
	case Signed:
		return int64(v.B)
	case Unsigned:
		return int64(v.B)
	default:
		return int64(math.Float64frombits(v.B))
	}
}

func (v Val) Float() float64 { return math.Float64frombits(v.B) }

func (v Val) String() string {
	switch v.K {
	case Signed:
		return fmt.Sprint(int64(v.B))
	case Unsigned:
		return fmt.Sprint(v.B)
	default:
		return fmt.Sprint(math.Float64frombits(v.B))
	}
}

func toVal[T signal.SignalTypes](x T, k Kind) Val {
	switch k {
	case Signed:
		return Val{k, uint64(int64(x))}
	case Unsigned:
		return Val{k, uint64(x)}
	default:
		return Val{k, math.Float64bits(float64(x))}
	}
}

func fromVal[T signal.SignalTypes](v Val) T {
	switch v.K {
	case Signed:
		return T(int64(v.B))
	case Unsigned:
		return T(v.B)
	default:
		return T(math.Float64frombits(v.B))
	}
}

// Buf is a *signal.Buffer[T] for some T.
type Buf interface {
	T() int
	Ptr() unsafe.Pointer // identity of the buffer header
	Channels() int
	BitDepth() int
	Len() int
	Cap() int
	Length() int
	Capacity() int
	Slice(s, e int) Buf
	Append(o Buf)
	AppendSample(v Val)
	Sample(i int) Val
	SetSample(i int, v Val)
	BufferIndex(c, i int) int
	Channel(c int) Chan
	AllocsSlice(s, e, runs int) float64
	AllocsChannel(ch, runs int) float64
}

// Chan is a signal.C[T].
type Chan interface {
	BufferIndex(c, i int) int
	Channels() int
	Capacity() int
	Length() int
	Sample(i int) Val
	SetSample(i int, v Val)
}

// Sl is a []T.
type Sl interface {
	T() int
	Len() int
	IsNil() bool
	Get(i int) Val
	Set(i int, v Val)
}

// Pool is a *signal.PoolAllocator[T].
type Pool interface {
	T() int
	Get() Buf
	Put(b Buf)
	// Copy returns a copy of the allocator *value* (sharing whatever the value shares).
	Copy() Pool
	AllocsCycle(runs int) float64
	AllocsCycleByValue(runs int) float64
	AllocsCyclePair(runs int) float64
	AllocsCycleMany(runs int) float64
}

type bufW[T signal.SignalTypes] struct {
	b *signal.Buffer[T]
	t int
	k Kind
}

func (w bufW[T]) T() int                 { return w.t }
func (w bufW[T]) Ptr() unsafe.Pointer    { return unsafe.Pointer(w.b) }
func (w bufW[T]) Channels() int          { return w.b.Channels() }
func (w bufW[T]) BitDepth() int          { return int(w.b.BitDepth()) }
func (w bufW[T]) Len() int               { return w.b.Len() }
func (w bufW[T]) Cap() int               { return w.b.Cap() }
func (w bufW[T]) Length() int            { return w.b.Length() }
func (w bufW[T]) Capacity() int          { return w.b.Capacity() }
func (w bufW[T]) Slice(s, e int) Buf     { return bufW[T]{w.b.Slice(s, e), w.t, w.k} }
func (w bufW[T]) Append(o Buf)           { w.b.Append(o.(bufW[T]).b) }
func (w bufW[T]) AppendSample(v Val)     { w.b.AppendSample(fromVal[T](v)) }
func (w bufW[T]) Sample(i int) Val       { return toVal(w.b.Sample(i), w.k) }
func (w bufW[T]) SetSample(i int, v Val) { w.b.SetSample(i, fromVal[T](v)) }
func (w bufW[T]) BufferIndex(c, i int) int {
	return w.b.BufferIndex(c, i)
}
func (w bufW[T]) Channel(c int) Chan { return chanW[T]{w.b.Channel(c), w.k} }

type chanW[T signal.SignalTypes] struct {
	c signal.C[T]
	k Kind
}

func (w chanW[T]) BufferIndex(c, i int) int { return w.c.BufferIndex(c, i) }
func (w chanW[T]) Channels() int            { return w.c.Channels() }
func (w chanW[T]) Capacity() int            { return w.c.Capacity() }
func (w chanW[T]) Length() int              { return w.c.Length() }
func (w chanW[T]) Sample(i int) Val         { return toVal(w.c.Sample(i), w.k) }
func (w chanW[T]) SetSample(i int, v Val)   { w.c.SetSample(i, fromVal[T](v)) }

type slW[T signal.SignalTypes] struct {
	s []T
	t int
	k Kind
}

func (w slW[T]) T() int           { return w.t }
func (w slW[T]) Len() int         { return len(w.s) }
func (w slW[T]) IsNil() bool      { return w.s == nil }
func (w slW[T]) Get(i int) Val    { return toVal(w.s[i], w.k) }
func (w slW[T]) Set(i int, v Val) { w.s[i] = fromVal[T](v) }

type poolW[T signal.SignalTypes] struct {
	p *signal.PoolAllocator[T]
	t int
	k Kind
}

func (w poolW[T]) T() int    { return w.t }
func (w poolW[T]) Get() Buf  { return bufW[T]{w.p.Get(), w.t, w.k} }
func (w poolW[T]) Put(b Buf) { w.p.Put(b.(bufW[T]).b) }
func (w poolW[T]) Copy() Pool {
	q := *w.p
	return poolW[T]{&q, w.t, w.k}
}

type typeOps struct {
	alloc      func(a signal.Allocator) Buf
	newSl      func(n int) Sl
	nilSl      func() Sl
	newPool    func(a signal.Allocator) Pool
	newStriped func(lens []int) Striped
	zero       func() Buf
}

type pairOps struct {
	name          string // conversion function name
	write         func(src Sl, dst Buf) int
	read          func(src Buf, dst Sl) int
	writeStriped  func(src []Sl, outerNil bool, dst Buf) int
	readStriped   func(src Buf, dst []Sl, outerNil bool) int
	conv          func(src, dst Buf) int
	writeStripedP func(src Striped, dst Buf) int
	readStripedP  func(src Buf, dst Striped) int
	block         func(n, ch int) func(in, out []uint64)
	blockX        func(n, ch, srcExtra, dstExtra int) func(in, out []uint64)
}

var (
	tops  []typeOps
	pairs [2 * NB][2 * NB]pairOps // built-in pairs, and the pairs that involve one of the NamedIO types
)

// Alloc calls signal.Alloc[T].
func Alloc(t int, a signal.Allocator) Buf { return tops[t].alloc(a) }

// ZeroBuf is new(signal.Buffer[T]): the zero value of the buffer type, made without an allocator.
func ZeroBuf(t int) Buf { return tops[t].zero() }

// NewSl makes a []T of length n (non-nil, also for n = 0); NilSl a nil []T.
func NewSl(t, n int) Sl { return tops[t].newSl(n) }
func NilSl(t int) Sl    { return tops[t].nilSl() }

// NewPool calls signal.PoolAlloc[T].
func NewPool(t int, a signal.Allocator) Pool { return tops[t].newPool(a) }

// Write calls signal.Write[S, D].
func Write(src Sl, dst Buf) int { return pairs[src.T()][dst.T()].write(src, dst) }

// Read calls signal.Read[S, D].
func Read(src Buf, dst Sl) int { return pairs[src.T()][dst.T()].read(src, dst) }

// WriteStriped calls signal.WriteStriped[S, D]; st is the element type of the slices.
func WriteStriped(st int, src []Sl, outerNil bool, dst Buf) int {
	return pairs[st][dst.T()].writeStriped(src, outerNil, dst)
}

// ReadStriped calls signal.ReadStriped[S, D]; dt is the element type of the slices.
func ReadStriped(src Buf, dt int, dst []Sl, outerNil bool) int {
	return pairs[src.T()][dt].readStriped(src, dst, outerNil)
}

// HasIO reports whether Write/Read/WriteStriped/ReadStriped are instantiated for slices of type s and
// buffers of type d and for the reverse direction.
func HasIO(s, d int) bool {
	return s < len(pairs) && d < len(pairs) && pairs[s][d].write != nil && pairs[s][d].writeStriped != nil && pairs[d][s].read != nil && pairs[d][s].readStriped != nil
}

// Conv calls the one conversion function admissible for the two element types.
func Conv(src, dst Buf) int { return pairs[src.T()][dst.T()].conv(src, dst) }

// ConvName names that function.
func ConvName(s, d int) string { return pairs[s][d].name }

func regType[T signal.SignalTypes](name string, k Kind, bits int, named bool) int {
	t := len(Types)
	Types = append(Types, Type{t, name, k, bits, named})
	tops = append(tops, typeOps{
		alloc:      func(a signal.Allocator) Buf { return bufW[T]{signal.Alloc[T](a), t, k} },
		newSl:      func(n int) Sl { return slW[T]{slack[T](n, t), t, k} },
		nilSl:      func() Sl { return slW[T]{nil, t, k} },
		newPool:    func(a signal.Allocator) Pool { p := signal.PoolAlloc[T](a); return poolW[T]{&p, t, k} },
		newStriped: func(lens []int) Striped { return mkStriped[T](t, lens) },
		zero:       func() Buf { return bufW[T]{new(signal.Buffer[T]), t, k} },
	})
	return t
}

// slack makes a []T of length n whose capacity is larger than its length; the hidden elements
// hold garbage.  Callers' slices rarely have len == cap (windows of planar blocks, reused scratch,
// results of append): the library must go by the length.
func slack[T signal.SignalTypes](n, t int) []T {
	s := make([]T, n, n+3)
	g := fromVal[T](Garbage(t))
	h := s[:cap(s)]
	for i := n; i < len(h); i++ {
		h[i] = g
	}
	return s
}

// CallerDamage holds the first observation that a striped call changed something of the caller's that
// is not its to change: the slice headers in the outer slice it was given, or the elements hidden
// behind the length of an inner slice (a library that appends to the caller's slices does both).
var CallerDamage atomic.Value

// TakeCallerDamage returns and clears the note.
func TakeCallerDamage() string {
	if n, ok := CallerDamage.Load().(string); ok && n != "" {
		CallerDamage.Store("")
		return n
	}
	return ""
}

// checkCaller compares the outer slice after a striped call with the inner slices that went in.
func checkCaller[S signal.SignalTypes](fn string, after [][]S, before []Sl) {
	for i, s := range before {
		w := s.(slW[S])
		if i >= len(after) {
			break
		}
		if len(after[i]) != len(w.s) || (len(w.s) > 0 && &after[i][0] != &w.s[0]) || (after[i] == nil) != (w.s == nil) {
			CallerDamage.CompareAndSwap(nil, "")
			if cur, _ := CallerDamage.Load().(string); cur == "" {
				CallerDamage.Store(fmt.Sprintf("%s changed element %d of the outer slice it was given: a slice of length %d, it was of length %d", fn, i, len(after[i]), len(w.s)))
			}
			return
		}
		if n := w.hiddenChanged(); n >= 0 {
			if cur, _ := CallerDamage.Load().(string); cur == "" {
				CallerDamage.Store(fmt.Sprintf("%s wrote behind the length of the caller's slice %d (element %d of its backing array, beyond len %d)", fn, i, n, len(w.s)))
			}
			return
		}
	}
}

// hiddenChanged returns the index of the first element behind the slice's length that no longer holds
// the garbage it was made with (-1: none).
func (w slW[T]) hiddenChanged() int {
	if w.s == nil {
		return -1
	}
	g := fromVal[T](Garbage(w.t))
	h := w.s[:cap(w.s)]
	for i := len(w.s); i < len(h); i++ {
		if h[i] != g {
			return i
		}
	}
	return -1
}

func unSl[S signal.SignalTypes](src []Sl, outerNil bool) [][]S {
	if outerNil {
		return nil
	}
	// the outer slice has spare capacity too, holding usable slices the caller did not pass
	r := make([][]S, len(src), len(src)+2)
	for i, s := range src {
		r[i] = s.(slW[S]).s
	}
	h := r[:cap(r)]
	for i := len(src); i < len(h); i++ {
		h[i] = make([]S, 3)
	}
	return r
}

func regIO[S, D signal.SignalTypes](s, d int) {
	p := &pairs[s][d]
	p.write = func(src Sl, dst Buf) int { return signal.Write(src.(slW[S]).s, dst.(bufW[D]).b) }
	p.read = func(src Buf, dst Sl) int { return signal.Read(src.(bufW[S]).b, dst.(slW[D]).s) }
	p.writeStriped = func(src []Sl, outerNil bool, dst Buf) int {
		outer := unSl[S](src, outerNil)
		defer checkCaller("WriteStriped", outer, src)
		return signal.WriteStriped(outer, dst.(bufW[D]).b)
	}
	p.readStriped = func(src Buf, dst []Sl, outerNil bool) int {
		outer := unSl[D](dst, outerNil)
		defer checkCaller("ReadStriped", outer, dst)
		return signal.ReadStriped(src.(bufW[S]).b, outer)
	}
	p.writeStripedP = func(src Striped, dst Buf) int { return signal.WriteStriped(src.(stripedW[S]).s, dst.(bufW[D]).b) }
	p.readStripedP = func(src Buf, dst Striped) int { return signal.ReadStriped(src.(bufW[S]).b, dst.(stripedW[D]).s) }
}

func regConv[S, D signal.SignalTypes](s, d int, name string, f func(*signal.Buffer[S], *signal.Buffer[D]) int) {
	regIO[S, D](s, d)
	p := &pairs[s][d]
	p.name = name
	p.conv = func(src, dst Buf) int { return f(src.(bufW[S]).b, dst.(bufW[D]).b) }
	sk, dk := Types[s].Kind, Types[d].Kind
	p.block = func(n, ch int) func(in, out []uint64) { return p.blockX(n, ch, 0, 0) }
	// blockX: the source buffer is srcExtra frames longer than the n samples converted (the extra
	// frames hold garbage), the destination dstExtra frames longer
	p.blockX = func(n, ch, srcExtra, dstExtra int) func(in, out []uint64) {
		frames := (n + ch - 1) / ch
		sb := signal.Alloc[S](signal.Allocator{Channels: ch, Length: frames + srcExtra, Capacity: frames + srcExtra})
		db := signal.Alloc[D](signal.Allocator{Channels: ch, Length: frames + dstExtra, Capacity: frames + dstExtra})
		sentinel := fromVal[D](Garbage(d))
		sgarbage := fromVal[S](Garbage(s))
		return func(in, out []uint64) {
			// exactly len(in) samples: whole frames plus, when len(in) is not a multiple of the channel
			// count, a partly filled last frame (made with AppendSample on a window)
			s2, d2 := sb, db
			if len(in) != frames*ch {
				whole := len(in) / ch
				s2, d2 = sb.Slice(0, whole), db.Slice(0, whole)
				for k := whole * ch; k < len(in); k++ {
					s2.AppendSample(0)
					d2.AppendSample(0)
				}
			}
			for i, r := range in {
				s2.SetSample(i, fromVal[S](Val{sk, r}))
				// the destination starts out holding garbage: a conversion must overwrite it
				d2.SetSample(i, sentinel)
			}
			if len(in) == frames*ch {
				for i := len(in); i < s2.Len(); i++ {
					s2.SetSample(i, sgarbage)
				}
				for i := len(in); i < d2.Len(); i++ {
					d2.SetSample(i, sentinel)
				}
			}
			guarded(name, func() { f(s2, d2) })
			for i := range in {
				out[i] = toVal(d2.Sample(i), dk).B
			}
		}
	}
}

// LibraryPanic holds the first panic of a conversion called on valid buffers by a block function
// (the destination then keeps the garbage it was pre-filled with, which the oracles report; this note
// says why).
var LibraryPanic atomic.Value

func guarded(name string, f func()) {
	defer func() {
		if r := recover(); r != nil {
			LibraryPanic.CompareAndSwap(nil, fmt.Sprintf("%s panicked on buffers of equal channel count: %v", name, r))
		}
	}()
	f()
}

// ConvVia converts the raw source values in through the conversion for (s, d), with a source buffer
// that came about in an unusual way (all through the public API):
//
//	route 1: allocated, then filled only through two Slice windows of it (never through itself);
//	route 2: taken from a pool that had already recycled it, then filled through windows;
//	route 3: first the destination of another conversion (from element type int16 or float64), then
//	         overwritten through a window.
//
// The destination is a fresh buffer pre-filled with garbage; the raw results go to out.
func ConvVia(s, d, route int, in, out []uint64) {
	n := len(in)
	a := signal.Allocator{Channels: 1, Length: n, Capacity: n}
	var src Buf
	switch route {
	case 2:
		pool := NewPool(s, a)
		b := pool.Get()
		for i := 0; i < n; i++ {
			b.SetSample(i, Garbage(s))
		}
		pool.Put(b)
		src = pool.Get()
	case 3:
		p := Int16
		if Types[s].Kind != Float {
			p = Float64
		}
		prod := Alloc(p, a)
		for i := 0; i < n; i++ {
			prod.SetSample(i, Tok(p, 0))
		}
		src = Alloc(s, a)
		guarded(ConvName(p, s), func() { Conv(prod, src) })
	case 4:
		// source and destination (below) were grown to their size by Append
		src = Alloc(s, signal.Allocator{Channels: 1, Length: 1, Capacity: 1})
		src.Append(Alloc(s, signal.Allocator{Channels: 1, Length: n - 1, Capacity: n - 1}))
	default:
		src = Alloc(s, a)
	}
	w1, w2 := src.Slice(0, n/2), src.Slice(n/2, n)
	sk := Types[s].Kind
	for i, r := range in {
		if i < n/2 {
			w1.SetSample(i, Val{sk, r})
		} else {
			w2.SetSample(i-n/2, Val{sk, r})
		}
	}
	dst := Alloc(d, a)
	if route == 4 {
		dst = Alloc(d, signal.Allocator{Channels: 1, Length: 1, Capacity: 1})
		dst.Append(Alloc(d, signal.Allocator{Channels: 1, Length: n - 1, Capacity: n - 1}))
	}
	for i := 0; i < n; i++ {
		dst.SetSample(i, Garbage(d))
	}
	guarded(ConvName(s, d), func() { Conv(src, dst) })
	for i := range in {
		out[i] = dst.Sample(i).B
	}
}

// ChannelLength calls signal.ChannelLength.
func ChannelLength(n, channels int) int { return signal.ChannelLength(n, channels) }

// ConvBlock returns a function that converts up to n raw sample values (Val.B of the
// source kind) through the real conversion function for (s, d), via real one-channel
// buffers, and stores the raw results (Val.B of the destination kind) in out.
func ConvBlock(s, d, n int) func(in, out []uint64) { return pairs[s][d].block(n, 1) }

// ConvBlockUneven is ConvBlockCh with a source that is srcExtra frames longer than the n samples (n must
// be a whole number of frames) or a destination that is dstExtra frames longer; only the first n results
// are returned.
func ConvBlockUneven(s, d, n, ch, srcExtra, dstExtra int) func(in, out []uint64) {
	return pairs[s][d].blockX(n, ch, srcExtra, dstExtra)
}

// ConvBlockCh is ConvBlock over buffers with ch channels (the n samples are interleaved).
func ConvBlockCh(s, d, n, ch int) func(in, out []uint64) { return pairs[s][d].block(n, ch) }

// Type ids of the built-in types.
const (
	Int8 = iota
	Int16
	Int32
	Int64
	Int
	Uint8
	Uint16
	Uint32
	Uint64
	Uint
	Uintptr
	Float32
	Float64
)

func fromFloat[S constraints.Float](s int) {
	regConv(s, Int8, "FloatAsSigned", signal.FloatAsSigned[S, int8])
	regConv(s, Int16, "FloatAsSigned", signal.FloatAsSigned[S, int16])
	regConv(s, Int32, "FloatAsSigned", signal.FloatAsSigned[S, int32])
	regConv(s, Int64, "FloatAsSigned", signal.FloatAsSigned[S, int64])
	regConv(s, Int, "FloatAsSigned", signal.FloatAsSigned[S, int])
	regConv(s, Uint8, "FloatAsUnsigned", signal.FloatAsUnsigned[S, uint8])
	regConv(s, Uint16, "FloatAsUnsigned", signal.FloatAsUnsigned[S, uint16])
	regConv(s, Uint32, "FloatAsUnsigned", signal.FloatAsUnsigned[S, uint32])
	regConv(s, Uint64, "FloatAsUnsigned", signal.FloatAsUnsigned[S, uint64])
	regConv(s, Uint, "FloatAsUnsigned", signal.FloatAsUnsigned[S, uint])
	regConv(s, Uintptr, "FloatAsUnsigned", signal.FloatAsUnsigned[S, uintptr])
	regConv(s, Float32, "FloatAsFloat", signal.FloatAsFloat[S, float32])
	regConv(s, Float64, "FloatAsFloat", signal.FloatAsFloat[S, float64])
}

func fromSigned[S constraints.Signed](s int) {
	regConv(s, Int8, "SignedAsSigned", signal.SignedAsSigned[S, int8])
	regConv(s, Int16, "SignedAsSigned", signal.SignedAsSigned[S, int16])
	regConv(s, Int32, "SignedAsSigned", signal.SignedAsSigned[S, int32])
	regConv(s, Int64, "SignedAsSigned", signal.SignedAsSigned[S, int64])
	regConv(s, Int, "SignedAsSigned", signal.SignedAsSigned[S, int])
	regConv(s, Uint8, "SignedAsUnsigned", signal.SignedAsUnsigned[S, uint8])
	regConv(s, Uint16, "SignedAsUnsigned", signal.SignedAsUnsigned[S, uint16])
	regConv(s, Uint32, "SignedAsUnsigned", signal.SignedAsUnsigned[S, uint32])
	regConv(s, Uint64, "SignedAsUnsigned", signal.SignedAsUnsigned[S, uint64])
	regConv(s, Uint, "SignedAsUnsigned", signal.SignedAsUnsigned[S, uint])
	regConv(s, Uintptr, "SignedAsUnsigned", signal.SignedAsUnsigned[S, uintptr])
	regConv(s, Float32, "SignedAsFloat", signal.SignedAsFloat[S, float32])
	regConv(s, Float64, "SignedAsFloat", signal.SignedAsFloat[S, float64])
}

func fromUnsigned[S constraints.Unsigned](s int) {
	regConv(s, Int8, "UnsignedAsSigned", signal.UnsignedAsSigned[S, int8])
	regConv(s, Int16, "UnsignedAsSigned", signal.UnsignedAsSigned[S, int16])
	regConv(s, Int32, "UnsignedAsSigned", signal.UnsignedAsSigned[S, int32])
	regConv(s, Int64, "UnsignedAsSigned", signal.UnsignedAsSigned[S, int64])
	regConv(s, Int, "UnsignedAsSigned", signal.UnsignedAsSigned[S, int])
	regConv(s, Uint8, "UnsignedAsUnsigned", signal.UnsignedAsUnsigned[S, uint8])
	regConv(s, Uint16, "UnsignedAsUnsigned", signal.UnsignedAsUnsigned[S, uint16])
	regConv(s, Uint32, "UnsignedAsUnsigned", signal.UnsignedAsUnsigned[S, uint32])
	regConv(s, Uint64, "UnsignedAsUnsigned", signal.UnsignedAsUnsigned[S, uint64])
	regConv(s, Uint, "UnsignedAsUnsigned", signal.UnsignedAsUnsigned[S, uint])
	regConv(s, Uintptr, "UnsignedAsUnsigned", signal.UnsignedAsUnsigned[S, uintptr])
	regConv(s, Float32, "UnsignedAsFloat", signal.UnsignedAsFloat[S, float32])
	regConv(s, Float64, "UnsignedAsFloat", signal.UnsignedAsFloat[S, float64])
}

// NamedIO lists the named element types for which reads, writes and conversions are
// registered too (against every built-in type, in both directions).
var NamedIO []int

// NamedPairs returns those extra (source, destination) pairs.
func NamedPairs() [][2]int {
	var r [][2]int
	for _, n := range NamedIO {
		for b := 0; b < NB; b++ {
			r = append(r, [2]int{n, b}, [2]int{b, n})
		}
	}
	return r
}

func ioWithBuiltins[N signal.SignalTypes](n int) {
	regIO[N, int8](n, Int8)
	regIO[N, int16](n, Int16)
	regIO[N, int32](n, Int32)
	regIO[N, int64](n, Int64)
	regIO[N, int](n, Int)
	regIO[N, uint8](n, Uint8)
	regIO[N, uint16](n, Uint16)
	regIO[N, uint32](n, Uint32)
	regIO[N, uint64](n, Uint64)
	regIO[N, uint](n, Uint)
	regIO[N, uintptr](n, Uintptr)
	regIO[N, float32](n, Float32)
	regIO[N, float64](n, Float64)
	regIO[int8, N](Int8, n)
	regIO[int16, N](Int16, n)
	regIO[int32, N](Int32, n)
	regIO[int64, N](Int64, n)
	regIO[int, N](Int, n)
	regIO[uint8, N](Uint8, n)
	regIO[uint16, N](Uint16, n)
	regIO[uint32, N](Uint32, n)
	regIO[uint64, N](Uint64, n)
	regIO[uint, N](Uint, n)
	regIO[uintptr, N](Uintptr, n)
	regIO[float32, N](Float32, n)
	regIO[float64, N](Float64, n)
}

func toNamedFloat[D constraints.Float](d int) {
	regConv(Int8, d, "SignedAsFloat", signal.SignedAsFloat[int8, D])
	regConv(Int16, d, "SignedAsFloat", signal.SignedAsFloat[int16, D])
	regConv(Int32, d, "SignedAsFloat", signal.SignedAsFloat[int32, D])
	regConv(Int64, d, "SignedAsFloat", signal.SignedAsFloat[int64, D])
	regConv(Int, d, "SignedAsFloat", signal.SignedAsFloat[int, D])
	regConv(Uint8, d, "UnsignedAsFloat", signal.UnsignedAsFloat[uint8, D])
	regConv(Uint16, d, "UnsignedAsFloat", signal.UnsignedAsFloat[uint16, D])
	regConv(Uint32, d, "UnsignedAsFloat", signal.UnsignedAsFloat[uint32, D])
	regConv(Uint64, d, "UnsignedAsFloat", signal.UnsignedAsFloat[uint64, D])
	regConv(Uint, d, "UnsignedAsFloat", signal.UnsignedAsFloat[uint, D])
	regConv(Uintptr, d, "UnsignedAsFloat", signal.UnsignedAsFloat[uintptr, D])
	regConv(Float32, d, "FloatAsFloat", signal.FloatAsFloat[float32, D])
	regConv(Float64, d, "FloatAsFloat", signal.FloatAsFloat[float64, D])
}

func toNamedSigned[D constraints.Signed](d int) {
	regConv(Int8, d, "SignedAsSigned", signal.SignedAsSigned[int8, D])
	regConv(Int16, d, "SignedAsSigned", signal.SignedAsSigned[int16, D])
	regConv(Int32, d, "SignedAsSigned", signal.SignedAsSigned[int32, D])
	regConv(Int64, d, "SignedAsSigned", signal.SignedAsSigned[int64, D])
	regConv(Int, d, "SignedAsSigned", signal.SignedAsSigned[int, D])
	regConv(Uint8, d, "UnsignedAsSigned", signal.UnsignedAsSigned[uint8, D])
	regConv(Uint16, d, "UnsignedAsSigned", signal.UnsignedAsSigned[uint16, D])
	regConv(Uint32, d, "UnsignedAsSigned", signal.UnsignedAsSigned[uint32, D])
	regConv(Uint64, d, "UnsignedAsSigned", signal.UnsignedAsSigned[uint64, D])
	regConv(Uint, d, "UnsignedAsSigned", signal.UnsignedAsSigned[uint, D])
	regConv(Uintptr, d, "UnsignedAsSigned", signal.UnsignedAsSigned[uintptr, D])
	regConv(Float32, d, "FloatAsSigned", signal.FloatAsSigned[float32, D])
	regConv(Float64, d, "FloatAsSigned", signal.FloatAsSigned[float64, D])
}

func toNamedUnsigned[D constraints.Unsigned](d int) {
	regConv(Int8, d, "SignedAsUnsigned", signal.SignedAsUnsigned[int8, D])
	regConv(Int16, d, "SignedAsUnsigned", signal.SignedAsUnsigned[int16, D])
	regConv(Int32, d, "SignedAsUnsigned", signal.SignedAsUnsigned[int32, D])
	regConv(Int64, d, "SignedAsUnsigned", signal.SignedAsUnsigned[int64, D])
	regConv(Int, d, "SignedAsUnsigned", signal.SignedAsUnsigned[int, D])
	regConv(Uint8, d, "UnsignedAsUnsigned", signal.UnsignedAsUnsigned[uint8, D])
	regConv(Uint16, d, "UnsignedAsUnsigned", signal.UnsignedAsUnsigned[uint16, D])
	regConv(Uint32, d, "UnsignedAsUnsigned", signal.UnsignedAsUnsigned[uint32, D])
	regConv(Uint64, d, "UnsignedAsUnsigned", signal.UnsignedAsUnsigned[uint64, D])
	regConv(Uint, d, "UnsignedAsUnsigned", signal.UnsignedAsUnsigned[uint, D])
	regConv(Uintptr, d, "UnsignedAsUnsigned", signal.UnsignedAsUnsigned[uintptr, D])
	regConv(Float32, d, "FloatAsUnsigned", signal.FloatAsUnsigned[float32, D])
	regConv(Float64, d, "FloatAsUnsigned", signal.FloatAsUnsigned[float64, D])
}

func typeID(name string) int {
	for _, t := range Types {
		if t.Name == name {
			return t.ID
		}
	}
	panic("no type " + name)
}

// Named element types (C13).
type (
	MyInt8    int8
	MyInt16   int16
	MyInt32   int32
	MyInt64   int64
	MyInt     int
	MyUint8   uint8
	MyUint16  uint16
	MyUint32  uint32
	MyUint64  uint64
	MyUint    uint
	MyUintptr uintptr
	MyFloat32 float32
	MyFloat64 float64
)

func init() {
	ws := int(unsafe.Sizeof(int(0))) * 8
	regType[int8]("int8", Signed, 8, false)
	regType[int16]("int16", Signed, 16, false)
	regType[int32]("int32", Signed, 32, false)
	regType[int64]("int64", Signed, 64, false)
	regType[int]("int", Signed, ws, false)
	regType[uint8]("uint8", Unsigned, 8, false)
	regType[uint16]("uint16", Unsigned, 16, false)
	regType[uint32]("uint32", Unsigned, 32, false)
	regType[uint64]("uint64", Unsigned, 64, false)
	regType[uint]("uint", Unsigned, ws, false)
	regType[uintptr]("uintptr", Unsigned, int(unsafe.Sizeof(uintptr(0)))*8, false)
	regType[float32]("float32", Float, 32, false)
	regType[float64]("float64", Float, 64, false)

	regType[MyInt8]("MyInt8", Signed, 8, true)
	regType[MyInt16]("MyInt16", Signed, 16, true)
	regType[MyInt32]("MyInt32", Signed, 32, true)
	regType[MyInt64]("MyInt64", Signed, 64, true)
	regType[MyInt]("MyInt", Signed, ws, true)
	regType[MyUint8]("MyUint8", Unsigned, 8, true)
	regType[MyUint16]("MyUint16", Unsigned, 16, true)
	regType[MyUint32]("MyUint32", Unsigned, 32, true)
	regType[MyUint64]("MyUint64", Unsigned, 64, true)
	regType[MyUint]("MyUint", Unsigned, ws, true)
	regType[MyUintptr]("MyUintptr", Unsigned, int(unsafe.Sizeof(uintptr(0)))*8, true)
	regType[MyFloat32]("MyFloat32", Float, 32, true)
	regType[MyFloat64]("MyFloat64", Float, 64, true)

	fromSigned[int8](Int8)
	fromSigned[int16](Int16)
	fromSigned[int32](Int32)
	fromSigned[int64](Int64)
	fromSigned[int](Int)
	fromUnsigned[uint8](Uint8)
	fromUnsigned[uint16](Uint16)
	fromUnsigned[uint32](Uint32)
	fromUnsigned[uint64](Uint64)
	fromUnsigned[uint](Uint)
	fromUnsigned[uintptr](Uintptr)
	fromFloat[float32](Float32)
	fromFloat[float64](Float64)

	// every named type takes part in reads, writes and conversions as well (against every built-in type,
	// in both directions)
	namedSigned[MyInt8]("MyInt8")
	namedSigned[MyInt16]("MyInt16")
	namedSigned[MyInt32]("MyInt32")
	namedSigned[MyInt64]("MyInt64")
	namedSigned[MyInt]("MyInt")
	namedUnsigned[MyUint8]("MyUint8")
	namedUnsigned[MyUint16]("MyUint16")
	namedUnsigned[MyUint32]("MyUint32")
	namedUnsigned[MyUint64]("MyUint64")
	namedUnsigned[MyUint]("MyUint")
	namedUnsigned[MyUintptr]("MyUintptr")
	namedFloat[MyFloat32]("MyFloat32")
	namedFloat[MyFloat64]("MyFloat64")

	// Thirteen more named types, one per built-in type, that all carry the SAME name: each is declared
	// in its own function scope, so they are distinct types that reflect prints alike ("dyn.Sample").
	// They take part wherever a check ranges over all of Types (allocation, C13; Scale, C16): Types[2*NB:].
	regLocalTypes(ws)
}

func namedSigned[N constraints.Signed](name string) {
	n := typeID(name)
	NamedIO = append(NamedIO, n)
	ioWithBuiltins[N](n)
	fromSigned[N](n)
	toNamedSigned[N](n)
}

func namedUnsigned[N constraints.Unsigned](name string) {
	n := typeID(name)
	NamedIO = append(NamedIO, n)
	ioWithBuiltins[N](n)
	fromUnsigned[N](n)
	toNamedUnsigned[N](n)
}

func namedFloat[N constraints.Float](name string) {
	n := typeID(name)
	NamedIO = append(NamedIO, n)
	ioWithBuiltins[N](n)
	fromFloat[N](n)
	toNamedFloat[N](n)
}

// Named types whose names end in digits that are not their width (fixed-point and format names do).
type (
	Q15      int16
	PCM24    int32
	Level8   uint16
	Code32   uint64
	Stereo16 float32
	Sample2  float64
	X64      int8
)

func regLocalTypes(ws int) {
	regType[Q15]("Q15", Signed, 16, true)
	regType[PCM24]("PCM24", Signed, 32, true)
	regType[Level8]("Level8", Unsigned, 16, true)
	regType[Code32]("Code32", Unsigned, 64, true)
	regType[Stereo16]("Stereo16", Float, 32, true)
	regType[Sample2]("Sample2", Float, 64, true)
	regType[X64]("X64", Signed, 8, true)
	func() { type Sample int8; regType[Sample]("Sample(int8)", Signed, 8, true) }()
	func() { type Sample int16; regType[Sample]("Sample(int16)", Signed, 16, true) }()
	func() { type Sample int32; regType[Sample]("Sample(int32)", Signed, 32, true) }()
	func() { type Sample int64; regType[Sample]("Sample(int64)", Signed, 64, true) }()
	func() { type Sample int; regType[Sample]("Sample(int)", Signed, ws, true) }()
	func() { type Sample uint8; regType[Sample]("Sample(uint8)", Unsigned, 8, true) }()
	func() { type Sample uint16; regType[Sample]("Sample(uint16)", Unsigned, 16, true) }()
	func() { type Sample uint32; regType[Sample]("Sample(uint32)", Unsigned, 32, true) }()
	func() { type Sample uint64; regType[Sample]("Sample(uint64)", Unsigned, 64, true) }()
	func() { type Sample uint; regType[Sample]("Sample(uint)", Unsigned, ws, true) }()
	func() {
		type Sample uintptr
		regType[Sample]("Sample(uintptr)", Unsigned, int(unsafe.Sizeof(uintptr(0)))*8, true)
	}()
	func() { type Sample float32; regType[Sample]("Sample(float32)", Float, 32, true) }()
	func() { type Sample float64; regType[Sample]("Sample(float64)", Float, 64, true) }()
}

// Try runs f and reports whether it panicked.
func Try(f func()) (panicked bool, msg string) {
	defer func() {
		if r := recover(); r != nil {
			panicked = true
			msg = fmt.Sprint(r)
		}
	}()
	f()
	return
}

// Tok makes token n as a value of element type t.
func Tok(t int, n int64) Val {
	switch Types[t].Kind {
	case Signed:
		return I(n)
	case Unsigned:
		return U(uint64(n))
	default:
		return F(float64(n))
	}
}

// Garbage is a recognisable non-trivial value of type t (0x55.. pattern; 1/3 for floats)
// that destinations are pre-filled with: narrowing it does not give 0.
func Garbage(t int) Val {
	ty := Types[t]
	switch ty.Kind {
	case Signed:
		return I(int64(0x5555555555555555 >> uint(64-ty.Bits)))
	case Unsigned:
		return U(uint64(0x5555555555555555) >> uint(64-ty.Bits))
	}
	return F(1.0 / 3)
}

// MyInt16ID is the type id of the named type MyInt16.
func MyInt16ID() int {
	for _, t := range Types {
		if t.Name == "MyInt16" {
			return t.ID
		}
	}
	panic("no MyInt16")
}
