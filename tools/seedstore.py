#!/usr/bin/env python3
"""tools/seedstore.py <Cnn> <mK> "<what it needs to manifest>"  — copy a confirmed seed from /tmp/seed-Cnn/mK into /verif/seeded/Cnn-mK/"""
import json, os, shutil, sys, re
pid, m, needs = sys.argv[1], sys.argv[2], sys.argv[3]
rnd = sys.argv[4] if len(sys.argv) > 4 else "1"
missed = sys.argv[5] if len(sys.argv) > 5 else ""
src = f"/tmp/seed-{pid}/{m}" if rnd == "1" else f"/tmp/seed{rnd}-{pid}/{m}"
dst = f"/verif/seeded/{pid}-{m}" if rnd == "1" else f"/verif/seeded/{pid}-r{rnd}{m}"
os.makedirs(dst, exist_ok=True)
for f in ("patch.diff", "demo_test.go", "README.md"):
    shutil.copy(os.path.join(src, f), os.path.join(dst, f))
if os.path.exists(os.path.join(src, "NORACE")):
    shutil.copy(os.path.join(src, "NORACE"), os.path.join(dst, "NORACE"))
res = open(os.path.join(src, "result.txt")).read()
conf = re.search(r"demo_on_unchanged_tree_exit=(\d+).*suite_with_change_exit=(\d+).*demo_with_change_exit=(\d+).*race_flag='([^']*)'", res)
checks = []
for mm in re.finditer(r"CHECK (\S+) exit=(\d+) :: (.*)", res):
    key = re.search(r"key=(\S+)", mm.group(3))
    checks.append({"check": mm.group(1), "exit": int(mm.group(2)), "detected": mm.group(2) == "1" and "VIOLATION" in mm.group(3), "first_violation_key": key.group(1) if key else None})
prop = [json.loads(l) for l in open("/verif/properties.jsonl") if json.loads(l)["id"] == pid][0]
meta = {
    "property_id": pid,
    "property_title": prop["title"],
    "origin": "written by a fresh sub-agent that was given only the text of the property and its own scratch worktree of /repo (nothing from /verif)" if rnd == "1" else "round 3 (adversarial): written by a fresh sub-agent given the text of the property, its own scratch worktree of /repo and a general description of what the harness already does (exhaustive small scopes, the list of large configurations, value sweeps, neighbour/alignment/order passes, schedule enumeration with race monitor), asked for something such a harness would still miss; nothing from /verif" if rnd == "3" else "round 4 (adversarial, against the mature harness): written by a fresh sub-agent given the text of the property, its own scratch worktree of /repo and a description of everything the harness does by now (named types over every kind, sizes up to 2^25 samples, special values by bit pattern, fresh processes per first call, library goroutines as explorer threads ...), told that size thresholds and further named kinds are not wanted, and asked for a trigger of a different nature (combinations of ordinary conditions, argument relationships such as aliasing, operation orders outside the alphabet, the process environment); nothing from /verif" if rnd == "4" else "round 5 (plain mistakes, after four rounds of strengthening): written by a fresh sub-agent that was given only the text of the property and its own scratch worktree of /repo (nothing from /verif, nothing about the harness), asked for three realistic maintainer's mistakes inside the property's domain, as different from each other as possible" if rnd == "5" else "round 6 (subtle plain mistakes): written by a fresh sub-agent that was given the text of the property, its own scratch worktree of /repo and the list of ideas already used for this property in earlier rounds (one line each, so as not to repeat them), nothing about the harness; asked for three small, subtle maintainer's mistakes inside the property's domain that break different clauses" if rnd == "6" else "round 7 (subtle mistakes aimed at what a tester holds fixed): as round 6 (property text, own worktree, list of ideas already used, nothing about the harness), with the additional hint to put the mistake where only an unusual-but-legal input shows it: a particular argument value or combination, a relation between two lengths, a sample value, one type family, an order of two ordinary calls" if rnd == "7" else "round 8 (subtle mistakes in helpers and in interactions between two calls): as round 7 (property text, own worktree, list of ideas already used in rounds 1-7, nothing about the harness), with the additional hints to look at the helper functions the property's functions call (BufferIndex, ChannelLength, alignCapacity, mustSame, clear, getBitDepth, Scale, the BitDepth methods), at interactions between two functions (the second call sees state the first one left) and at what the destination or the caller's slice held before the call" if rnd == "8" else "round 9 (two conditions at once): as round 8 (property text, own worktree, list of ideas already used in rounds 1-8, nothing about the harness), with the additional request to prefer mistakes whose trigger combines two ordinary conditions (a channel count and a length relation; a type pair and a sample value; an order of calls and a shape), so that varying one thing at a time does not show them" if rnd == "9" else "round 10 (together with another part of the API): as round 9 (property text, own worktree, list of ideas already used in rounds 1-9, nothing about the harness), with the additional hint to consider mistakes that only show when the function under the property is used together with another ordinary part of the API (pool buffers, windows made by Slice, channel views, buffers grown by Append or filled by AppendSample, named element types) or on its second use" if rnd == "10" else "round 11 (refactorings gone wrong): as round 10 (property text, own worktree, list of ideas already used in rounds 1-10, nothing about the harness), with the request to prefer refactorings that are equivalent to the original except in one corner: a loop restructured (unrolled, split, merged, block-wise), an early exit or fast path, a derived quantity cached in the Buffer header or a package variable, reflection or a math call replaced by arithmetic, a shared helper changed for the sake of one caller, a type switch replaced by size or kind tests" if rnd == "11" else "round 12 (no hint): as round 11 (property text, own worktree, list of ideas already used in rounds 1-11, nothing about the harness), without any hint about the kind of mistake: read the code behind the property line by line and pick three plausible edits that the list does not cover yet; for C12 and C18 with the restriction that every Append in the demonstration has a frame-aligned destination and source (C03's domain)" if rnd == "12" else "round 13 (no hint, 13 properties): as round 12, for the properties C01-C04, C10-C15 and C18-C20 only" if rnd == "13" else "round 2: written by a fresh sub-agent given the text of the property, its own scratch worktree of /repo, and the general remark that the harness under test is a bounded-exhaustive checker (small shapes, short histories, 2-3 goroutines, finite alphabets for 64-bit/float64 values) with the request to need something outside such a scope; nothing from /verif",
    "round": int(rnd),
    "initially_missed_then_check_strengthened": missed,
    "needs_to_manifest": needs,
    "confirmed_by": {
        "how": "tools/seedcheck.sh in a scratch worktree of /repo HEAD: go test -run TestDemo on the unchanged tree, go test . (existing suite) with the patch, go test -run TestDemo with the patch",
        "demo_passes_on_unchanged_tree": conf.group(1) == "0",
        "existing_suite_passes_with_change": conf.group(2) == "0",
        "demo_fails_with_change": conf.group(3) != "0",
        "go_test_flags": conf.group(4),
    },
    "checks_run_with_change": checks,
    "detected_by_own_check": any(c["check"] == pid and c["detected"] for c in checks),
    "detected_by": [c["check"] for c in checks if c["detected"]],
    "note": sys.argv[6] if len(sys.argv) > 6 else "",
    "ran": f"tools/seedcheck.sh {src} {pid}  (quick tier, VERIF_REPO=<scratch worktree with the patch applied>)",
}
json.dump(meta, open(os.path.join(dst, "meta.json"), "w"), indent=1)
print(dst, [c["check"] + ("+" if c["detected"] else "-") for c in checks])
