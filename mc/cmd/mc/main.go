// mc runs one registered check:  mc <ID> [--tier quick|thorough] [--replay <file>]
package main

import (
	"fmt"
	"os"
	"runtime/metrics"
	"runtime/pprof"
	"time"
	"strconv"
	"strings"

	"verif/mc/core"
	_ "verif/mc/props"
)

// memoryWatchdog ends the process when it grows beyond a sane size (a changed tree may make an
// exploration allocate without bound, and the sandbox has no memory limit of its own).
func memoryWatchdog() {
	limit := uint64(28 << 30)
	sample := []metrics.Sample{{Name: "/memory/classes/total:bytes"}}
	for {
		time.Sleep(250 * time.Millisecond)
		metrics.Read(sample)
		if sample[0].Value.Kind() == metrics.KindUint64 && sample[0].Value.Uint64() > limit {
			fmt.Printf("INTERNAL-ERROR: the check process grew beyond %d GiB of memory and was stopped\n", limit>>30)
			os.Exit(2)
		}
	}
}

func main() {
	go memoryWatchdog()
	if len(os.Args) < 2 {
		fmt.Println("usage: mc <ID>|list [--tier quick|thorough] [--replay file]")
		os.Exit(2)
	}
	id := os.Args[1]
	if id == "list" {
		fmt.Println(strings.Join(core.IDs(), " "))
		return
	}
	if id == "selftest" {
		os.Exit(core.RunSelfTests())
	}
	tier := os.Getenv("VERIF_TIER")
	replay := ""
	for i := 2; i < len(os.Args); i++ {
		switch os.Args[i] {
		case "--worker":
			// internal: mc <ID> --worker <arg>   (a sub-process of a check)
			p := core.Lookup(id)
			if p == nil || p.Worker == nil {
				fmt.Println("INTERNAL-ERROR: no worker for", id)
				os.Exit(2)
			}
			arg := ""
			if i+1 < len(os.Args) {
				arg = os.Args[i+1]
			}
			if tier != "thorough" {
				tier = "quick"
			}
			os.Exit(p.Worker(core.NewCtx(p, tier, 0), arg))
		case "--tier":
			i++
			tier = os.Args[i]
		case "--replay":
			i++
			replay = os.Args[i]
		}
	}
	if tier != "thorough" {
		tier = "quick"
	}
	seed, _ := strconv.ParseInt(os.Getenv("VERIF_SEED"), 10, 64)
	p := core.Lookup(id)
	if p == nil {
		fmt.Printf("INTERNAL-ERROR: no check %q in this binary (have: %s)\n", id, strings.Join(core.IDs(), " "))
		os.Exit(2)
	}
	if f := os.Getenv("VERIF_CPUPROF"); f != "" {
		fh, _ := os.Create(f)
		pprof.StartCPUProfile(fh)
		defer pprof.StopCPUProfile()
	}
	c := core.NewCtx(p, tier, seed)
	if replay != "" {
		os.Exit(c.ReplayFile(replay))
	}
	c.Protect(func() { p.Run(c) })
	rc := c.Finish()
	pprof.StopCPUProfile()
	os.Exit(rc)
}
