package props

import (
	"crypto/sha256"
	"encoding/binary"
	"encoding/json"
	"fmt"
	"sync"
	"sync/atomic"

	"verif/mc/core"
	"verif/mc/dyn"
)

// C12 — views behave exactly like Go slices under any history of operations.
// Breadth-first search over histories of the views world (world.go): a successor is
// produced by replaying the path on fresh real objects and applying one more operation;
// states are deduplicated by a canonical key of the model state.

type c12Case struct {
	T   string `json:"type"`
	C   int
	Ops []wop `json:"ops"`
	// ValSet: every special value written with SetSample over a cell holding every other one, read back
	// through the buffer and through a window of it, by bit pattern (valpass.go); no history
	ValSet bool `json:"val_set,omitempty"`
}

type c12Cfg struct {
	name     string
	t        int
	C        int
	maxK     int // frames per allocation
	maxViews int
	depth    int
	canonVal bool
	sparse   bool // long buffers: a sparse alphabet of lengths and ranges
}

func c12Replay(cs c12Case, checkFrom int) (w *world, fs []F) {
	w = newWorld(typeByName(cs.T), cs.C)
	if cs.ValSet {
		return w, core.Guard("views", func() []F { return valSetSample(typeByName(cs.T), cs.C) })
	}
	fs = core.Guard("views", func() []F { return w.run(cs.Ops, checkFrom) })
	for i := range fs {
		fs[i].Msg = fmt.Sprintf("[%s C=%d] history %v :: %s", cs.T, cs.C, cs.Ops, fs[i].Msg)
	}
	return
}

// c12Ops is the alphabet enabled in the model state of w.
func c12Ops(w *world, cfg c12Cfg) []wop {
	var ops []wop
	nv := len(w.views)
	if nv < cfg.maxViews && cfg.sparse {
		K := cfg.maxK
		for _, lk := range [][2]int{{0, K}, {K / 2, K}, {K, K}, {1, 2}} {
			ops = append(ops, wop{K: "alloc", V: nv, A: lk[0], B: lk[1]})
		}
		for v := range w.views {
			cp := w.views[v].m.capacity()
			pts := sortedUnique([]int64{0, 1, int64(cp / 2), int64(cp - 1), int64(cp)})
			for _, s := range pts {
				for _, e := range pts {
					if s >= 0 && s <= e && int(e) <= cp {
						ops = append(ops, wop{K: "slice", V: v, A: int(s), B: int(e)})
					}
				}
			}
		}
	} else if nv < cfg.maxViews {
		for K := 0; K <= cfg.maxK; K++ {
			for L := 0; L <= K; L++ {
				ops = append(ops, wop{K: "alloc", V: nv, A: L, B: K})
			}
		}
		for v := range w.views {
			cp := w.views[v].m.capacity()
			for s := 0; s <= cp; s++ {
				for e := s; e <= cp; e++ {
					ops = append(ops, wop{K: "slice", V: v, A: s, B: e})
				}
			}
		}
	}
	for v := range w.views {
		m := w.views[v].m
		for x := range w.views {
			o := wop{K: "append", V: v, W: x}
			// growth is bounded too: the result must fit the shape alphabet
			if w.enabled(o) && m.n+w.views[x].m.n <= cfg.maxK*cfg.C*2 {
				ops = append(ops, o)
			}
		}
		ops = append(ops, wop{K: "asample", V: v})
		if m.n < m.capTotal() && m.get(m.n) != 0 {
			// the value zero appended over a cell that holds something else
			ops = append(ops, wop{K: "asample", V: v, A: 1})
		}
		if m.n > 0 {
			ops = append(ops, wop{K: "stamp", V: v})
			if m.n <= 4 {
				for i := 0; i < m.n; i++ {
					ops = append(ops, wop{K: "set", V: v, A: i})
				}
			} else {
				ops = append(ops, wop{K: "set", V: v, A: 0}, wop{K: "set", V: v, A: m.n - 1})
			}
		}
	}
	return ops
}

// c12Key is the canonical key of the model state: storages renumbered by first reference
// from the ordered view list, values renumbered by first occurrence (canonVal); storages
// no view refers to cannot be observed by any future operation and are left out.
func c12Key(w *world, canonVal bool) (key, alias [16]byte) {
	var buf, abuf []byte
	ids := map[*mstore]int{}
	var order []*mstore
	for _, v := range w.views {
		id, ok := ids[v.m.st]
		if !ok {
			id = len(order)
			ids[v.m.st] = id
			order = append(order, v.m.st)
		}
		buf = append(buf, byte(id))
		buf = binary.LittleEndian.AppendUint16(buf, uint16(v.m.off))
		buf = binary.LittleEndian.AppendUint16(buf, uint16(v.m.n))
		abuf = append(abuf, byte(id))
		abuf = binary.LittleEndian.AppendUint16(abuf, uint16(v.m.off))
		abuf = binary.LittleEndian.AppendUint16(abuf, uint16(v.m.n))
		abuf = binary.LittleEndian.AppendUint16(abuf, uint16(len(v.m.st.cells)))
	}
	buf = append(buf, 0xff)
	ren := map[int64]byte{0: 0} // zero keeps its identity
	for _, st := range order {
		buf = binary.LittleEndian.AppendUint16(buf, uint16(len(st.cells)))
		for _, x := range st.cells {
			if canonVal {
				r, ok := ren[x]
				if !ok {
					r = byte(len(ren))
					ren[x] = r
				}
				buf = append(buf, r)
			} else {
				buf = binary.LittleEndian.AppendUint16(buf, uint16(x))
			}
		}
	}
	if !canonVal {
		buf = binary.LittleEndian.AppendUint16(buf, uint16(w.tok))
	}
	h := sha256.Sum256(buf)
	copy(key[:], h[:16])
	h2 := sha256.Sum256(abuf)
	copy(alias[:], h2[:16])
	return
}

type keySet struct {
	mu [64]sync.Mutex
	m  [64]map[[16]byte]struct{}
}

func newKeySet() *keySet {
	s := &keySet{}
	for i := range s.m {
		s.m[i] = map[[16]byte]struct{}{}
	}
	return s
}

func (s *keySet) add(k [16]byte) bool {
	i := k[0] & 63
	s.mu[i].Lock()
	defer s.mu[i].Unlock()
	if _, ok := s.m[i][k]; ok {
		return false
	}
	s.m[i][k] = struct{}{}
	return true
}

func (s *keySet) size() int {
	n := 0
	for i := range s.m {
		n += len(s.m[i])
	}
	return n
}

type bfsResult struct {
	states, transitions, replays int64
	depthDone                    int
	aliasPatterns                int
	levelStates                  []int
	failed                       bool
}

func c12BFS(c *core.Ctx, cfg c12Cfg) bfsResult {
	var res bfsResult
	seen, aliases := newKeySet(), newKeySet()
	frontier := [][]wop{{}}
	w0 := newWorld(cfg.t, cfg.C)
	k0, a0 := c12Key(w0, cfg.canonVal)
	seen.add(k0)
	aliases.add(a0)
	var trans, replays atomic.Int64
	var failed atomic.Bool
	for d := 1; d <= cfg.depth; d++ {
		var mu sync.Mutex
		var next [][]wop
		c.ParallelFor(len(frontier), func(i int) {
			path := frontier[i]
			cs := c12Case{T: tn(cfg.t), C: cfg.C, Ops: path}
			w, _ := c12Replay(cs, len(path)+1)
			ops := c12Ops(w, cfg)
			var local [][]wop
			for _, o := range ops {
				np := append(append(make([]wop, 0, len(path)+1), path...), o)
				ncs := c12Case{T: tn(cfg.t), C: cfg.C, Ops: np}
				w2, fs := c12Replay(ncs, len(path))
				trans.Add(1)
				replays.Add(1)
				if len(fs) > 0 {
					c.Fail(ncs, fs...)
					failed.Store(true)
					continue
				}
				k, a := c12Key(w2, cfg.canonVal)
				aliases.add(a)
				if seen.add(k) {
					local = append(local, np)
				}
			}
			mu.Lock()
			next = append(next, local...)
			mu.Unlock()
		})
		if c.CapHit() {
			break
		}
		res.depthDone = d
		res.levelStates = append(res.levelStates, len(next))
		frontier = next
		if c.WantSample() && len(next) > 0 {
			c.Sample(map[string]any{"config": cfg.name, "depth": d, "history": fmt.Sprint(next[len(next)/2])})
		}
		if len(frontier) == 0 {
			break
		}
	}
	res.states = int64(seen.size())
	res.transitions = trans.Load()
	res.replays = replays.Load()
	res.aliasPatterns = aliases.size()
	res.failed = failed.Load()
	return res
}

func init() {
	core.Register(&core.Prop{
		ID: "C12", Level: "model_checking", Design: "§5 C12",
		Run: func(c *core.Ctx) {
			var cfgs []c12Cfg
			fam := []int{dyn.Int8, dyn.Uint16, dyn.Float64}
			if c.Quick() {
				for _, t := range fam {
					cfgs = append(cfgs, c12Cfg{"small/" + tn(t) + "/C1", t, 1, 2, 4, 5, true, false})
					cfgs = append(cfgs, c12Cfg{"small/" + tn(t) + "/C2", t, 2, 2, 4, 5, true, false})
				}
				for t := 0; t < dyn.NB; t++ {
					cfgs = append(cfgs, c12Cfg{"all-types/" + tn(t) + "/C2", t, 2, 2, 3, 3, true, false})
				}
				cfgs = append(cfgs, c12Cfg{"full/int16/C3", dyn.Int16, 3, 4, 6, 3, true, false})
				cfgs = append(cfgs, c12Cfg{"long/float32/C2 (40 frames, sparse ranges)", dyn.Float32, 2, 40, 4, 4, true, true})
			} else {
				for _, t := range fam {
					cfgs = append(cfgs, c12Cfg{"small/" + tn(t) + "/C1", t, 1, 2, 4, 6, true, false})
					cfgs = append(cfgs, c12Cfg{"small/" + tn(t) + "/C2", t, 2, 2, 4, 6, true, false})
				}
				for t := 0; t < dyn.NB; t++ {
					cfgs = append(cfgs, c12Cfg{"all-types/" + tn(t) + "/C2", t, 2, 2, 4, 4, true, false})
				}
				cfgs = append(cfgs, c12Cfg{"c1-deep/int8", dyn.Int8, 1, 2, 3, 7, true, false})
				for C := 1; C <= 3; C++ {
					cfgs = append(cfgs, c12Cfg{fmt.Sprintf("full/int16/C%d", C), dyn.Int16, C, 4, 6, 4, true, false})
				}
				cfgs = append(cfgs, c12Cfg{"long/float32/C2 (40 frames, sparse ranges)", dyn.Float32, 2, 40, 4, 5, true, true})
				cfgs = append(cfgs, c12Cfg{"long/int8/C3 (300 frames, sparse ranges)", dyn.Int8, 3, 300, 4, 4, true, true})
			}
			var states, trans, replays int64
			var report []map[string]any
			for _, cfg := range cfgs {
				if c.Expired() {
					break
				}
				r := c12BFS(c, cfg)
				states += r.states
				trans += r.transitions
				replays += r.replays
				report = append(report, map[string]any{"config": cfg.name, "channels": cfg.C, "max_frames": cfg.maxK, "max_views": cfg.maxViews,
					"depth_requested": cfg.depth, "depth_completed": r.depthDone, "states": r.states, "transitions": r.transitions,
					"new_states_per_level": r.levelStates, "distinct_aliasing_patterns": r.aliasPatterns})
			}
			// long linear histories on long buffers, every step checked, no deduplication (hidden counters or
			// caches inside the implementation are not part of the model key)
			var longSteps int64
			for _, t := range []int{dyn.Int8, dyn.Uint32, dyn.Float64} {
				for C := 1; C <= 3; C++ {
					for variant := 0; variant < 4; variant++ {
						cs := c12Case{T: tn(t), C: C}
						w := newWorld(t, C)
						ok := true
						step := func(o wop) {
							if !ok || !w.enabled(o) {
								return
							}
							if o.K == "append" && w.views[o.V].m.n+w.views[o.W].m.n > 3000 {
								return // keep the buffers bounded (self-append doubles)
							}
							cs.Ops = append(cs.Ops, o)
							longSteps++
							if fs := w.apply(o, true); len(fs) > 0 {
								for k := range fs {
									fs[k].Msg = fmt.Sprintf("[%s C=%d] long history of %d steps ending in %v :: %s", cs.T, cs.C, len(cs.Ops), cs.Ops[max0(len(cs.Ops)-6):], fs[k].Msg)
								}
								c.Fail(cs, fs...)
								ok = false
							}
						}
						K := []int{64, 200, 33, 500}[variant]
						step(wop{K: "alloc", V: 0, A: 0, B: K})
						step(wop{K: "alloc", V: 1, A: 3, B: 3})
						step(wop{K: "stamp", V: 1})
						for i := 0; i < 400 && ok; i++ {
							nv := len(w.views)
							v := i % nv
							m := w.views[v].m
							switch (i + variant) % 9 {
							case 0, 1, 2:
								step(wop{K: "asample", V: 0})
							case 3:
								step(wop{K: "append", V: 0, W: 1})
							case 4:
								if m.n > 0 {
									step(wop{K: "stamp", V: v})
								}
							case 5:
								if m.n > 0 {
									step(wop{K: "set", V: v, A: (i * 13) % m.n})
								}
							case 6:
								if nv < 7 {
									cp := m.capacity()
									step(wop{K: "slice", V: v, A: cp / 3, B: cp - cp/4})
								}
							case 7:
								step(wop{K: "append", V: v, W: (i / 9) % nv})
							case 8:
								if w.views[0].m.n%C == 0 {
									step(wop{K: "append", V: 0, W: 0})
								}
							}
						}
					}
				}
			}
			// directed histories on large storages: growth while other views survive on the old storage,
			// another buffer growing afterwards (recycled blocks), self-appends, windows at the tail of a
			// large parent written through both sides
			for _, t := range []int{dyn.Int8, dyn.Float64, dyn.Int32} {
				for _, C := range []int{1, 2, 3, 9, 65, 256, 300} {
					sizes := []int{24, 400, 1100, 4200, 9000} // frames
					if C > 3 {
						sizes = []int{24}
					}
					for _, S := range sizes {
						cs := c12Case{T: tn(t), C: C}
						w := newWorld(t, C)
						ok := true
						step := func(o wop) {
							if !ok || !w.enabled(o) {
								return
							}
							cs.Ops = append(cs.Ops, o)
							longSteps++
							if fs := w.apply(o, true); len(fs) > 0 {
								for k := range fs {
									fs[k].Msg = fmt.Sprintf("[%s C=%d] large-storage history %v :: %s", cs.T, cs.C, cs.Ops, fs[k].Msg)
								}
								c.Fail(cs, fs...)
								ok = false
							}
						}
						step(wop{K: "alloc", V: 0, A: S, B: S}) // v0: a, full
						step(wop{K: "stamp", V: 0})
						step(wop{K: "slice", V: 0, A: 0, B: S / 2})    // v1: first half of a
						step(wop{K: "slice", V: 0, A: S - S/10, B: S}) // v2: short window at the tail of a
						step(wop{K: "set", V: 0, A: C*S - 1})          // write through the parent inside v2
						step(wop{K: "set", V: 2, A: 0})                // and through the window
						step(wop{K: "alloc", V: 3, A: 1, B: 1})        // v3: one frame
						step(wop{K: "stamp", V: 3})
						step(wop{K: "append", V: 0, W: 3}) // a grows; v1, v2 stay on the old storage
						step(wop{K: "stamp", V: 1})
						step(wop{K: "alloc", V: 4, A: S / 2, B: S / 2}) // v4: b
						step(wop{K: "stamp", V: 4})
						step(wop{K: "append", V: 4, W: 1}) // b grows to S frames
						step(wop{K: "stamp", V: 4})
						step(wop{K: "stamp", V: 1})
						step(wop{K: "stamp", V: 0})
						step(wop{K: "alloc", V: 5, A: S / 4, B: S / 4}) // v5: c
						step(wop{K: "append", V: 5, W: 5})              // self-append, grows
						step(wop{K: "append", V: 5, W: 1})
						step(wop{K: "stamp", V: 5})
						step(wop{K: "stamp", V: 2})
						step(wop{K: "slice", V: 4, A: S - 3, B: S}) // tail window of the grown b
						step(wop{K: "stamp", V: 6})
						step(wop{K: "set", V: 4, A: C*S - 2})
					}
				}
			}
			c.Set("long_linear_history_steps", longSteps)
			// data-independence re-check: the lowest levels again without value canonicalisation
			q := c12BFS(c, c12Cfg{"recheck-canon", dyn.Int16, 2, 2, 3, 3, true, false})
			raw := c12BFS(c, c12Cfg{"recheck-raw", dyn.Int16, 2, 2, 3, 3, false, false})
			if q.failed != raw.failed || q.states > raw.states || q.depthDone != raw.depthDone {
				if !c.CapHit() {
					c.InternalError("value canonicalisation re-check failed: quotient %d states (failed=%v), raw %d states (failed=%v)", q.states, q.failed, raw.states, raw.failed)
				}
			}
			trans += longSteps
			c.Set("states", states)
			c.Set("transitions", trans)
			c.Set("traces_validated_against_impl", replays)
			c.Set("evaluations", trans)
			c.Set("configs", report)
			c.Set("canonicalisation_recheck", map[string]any{"quotient_states": q.states, "raw_states": raw.states})
			// writes of special values (the tokens of the histories are small positive numbers and 0)
			for _, t := range valTypes() {
				for C := 1; C <= 2; C++ {
					cs := c12Case{T: tn(t), C: C, ValSet: true}
					_, fs := c12Replay(cs, 0)
					c.Check(cs, true, fs)
				}
			}
			c.Set("rule", "breadth-first search over histories of {alloc(L,K), slice(v,s,e) for every valid range of every live view, append(v,w) for every ordered pair incl. v=w (frame-aligned, not overwriting its own source), appendSample(v), write(v) of fresh tokens, set(v,i)}; each transition replays the path on fresh real buffers, applies the operation to implementation and model and compares every live view (shape and every sample over its capacity) and every storage; states deduplicated by a canonical key of the model state; distinct_nontrivial = states")
			c.Set("distinct_nontrivial", states)
			c.Assume("values are tokens; value canonicalisation is sound because the alphabet is data-independent (re-checked on the low levels without it)", "capacity after a growing append is an environment answer", "Append onto a destination with a partly filled last frame is outside the domain of every listed property and not in the alphabet")
		},
		RunCase: func(c *core.Ctx, raw json.RawMessage) []F {
			_, fs := c12Replay(decode[c12Case](raw), 0)
			return fs
		},
		GoTest: func(raw json.RawMessage) string {
			cs := decode[c12Case](raw)
			if cs.ValSet {
				return ""
			}
			return worldGoTest(cs.T, cs.C, cs.Ops)
		},
	})
}
