package core

import (
	"bufio"
	"bytes"
	"context"
	"encoding/json"
	"fmt"
	"os"
	"os/exec"
	"path/filepath"
	"runtime"
	"strconv"
	"strings"
	"sync"
	"sync/atomic"
	"time"
)

// WorkerResult is what a race-mode worker process reports back.
type WorkerResult struct {
	Executions  int64             `json:"executions"`
	Transitions int64             `json:"transitions"`
	States      int64             `json:"states"`
	Configs     []map[string]any  `json:"configs"`
	Violations  []WorkerViolation `json:"violations"`
	CanaryOK    bool              `json:"canary_ok"`
	Digests     map[string]string `json:"digests,omitempty"`
	Capped      bool              `json:"capped"`
	Fallbacks   []string          `json:"fallbacks,omitempty"`
	Error       string            `json:"error,omitempty"`
}

type WorkerViolation struct {
	Case    json.RawMessage `json:"case"`
	Failure Failure         `json:"failure"`
}

// RunWorker runs `<binary> <id> <mode> <arg>` (binary relative to .build) and parses the
// line "WORKERJSON {...}" from its stdout.  stderr (race reports) is kept in a file.
func RunWorker(binary, id, mode, arg string, env ...string) (*WorkerResult, string, error) {
	if stalledOnce.Load() {
		env = append(append([]string{}, env...), "VERIF_NOGO=1")
	}
	res, se, err := runWorker(binary, id, mode, arg, env...)
	if err == errStall {
		stalledOnce.Store(true)
		// a thread blocked in a primitive the explorer does not control (see schedx.StallAfter): once
		// more, with the goroutines the code under test starts itself outside the explorer
		res, se2, err2 := runWorker(binary, id, mode, arg, append(append([]string{}, env...), "VERIF_NOGO=1")...)
		if res != nil {
			res.Fallbacks = append(res.Fallbacks, "stall with library goroutines as explorer threads; repeated with VERIF_NOGO=1")
		}
		return res, se + se2, err2
	}
	return res, se, err
}

var errStall = fmt.Errorf("worker stalled")

// stalledOnce: a worker of this check stalled; the remaining ones start with VERIF_NOGO=1 at once.
var stalledOnce atomic.Bool

func runWorker(binary, id, mode, arg string, env ...string) (*WorkerResult, string, error) {
	bin := filepath.Join(BuildDir(), binary)
	// a worker that does not come back (a changed tree may hang it) is killed: its own time cap plus a margin
	limit := 20 * time.Minute
	for _, e := range env {
		if strings.HasPrefix(e, "VERIF_BUDGET_S=") {
			if s, err := strconv.Atoi(strings.TrimPrefix(e, "VERIF_BUDGET_S=")); err == nil {
				limit = 5*time.Duration(s)*time.Second + 90*time.Second // (a worker may stretch its budget under load)
			}
		}
	}
	ctx, cancel := context.WithTimeout(context.Background(), limit)
	defer cancel()
	cmd := exec.CommandContext(ctx, bin, id, mode, arg)
	cmd.Env = append(os.Environ(), env...)
	var out, errb bytes.Buffer
	cmd.Stdout = &out
	cmd.Stderr = &errb
	runErr := cmd.Run()
	var res *WorkerResult
	sc := bufio.NewScanner(&out)
	sc.Buffer(make([]byte, 1<<20), 1<<28)
	for sc.Scan() {
		l := sc.Text()
		if strings.HasPrefix(l, "WORKERJSON ") {
			var r WorkerResult
			if err := json.Unmarshal([]byte(strings.TrimPrefix(l, "WORKERJSON ")), &r); err != nil {
				return nil, errb.String(), fmt.Errorf("bad worker output: %v", err)
			}
			res = &r
		}
	}
	if ee, ok := runErr.(*exec.ExitError); ok && res == nil && ee.ExitCode() == 97 {
		return nil, errb.String(), errStall
	}
	if res == nil && ctx.Err() != nil {
		return nil, errb.String(), fmt.Errorf("worker %s %s %s did not finish within %v and was killed", binary, id, mode, limit)
	}
	if res == nil {
		return nil, errb.String(), fmt.Errorf("worker %s %s %s produced no result (exit: %v); stderr: %.2000s", binary, id, mode, runErr, errb.String())
	}
	return res, errb.String(), nil
}

// WorkerJob is one sub-process of a check.
type WorkerJob struct {
	Binary, ID, Arg string
	Env             []string
}

type WorkerOutcome struct {
	Res    *WorkerResult
	Stderr string
	Err    error
}

// RunWorkers runs the jobs on all cores (one single-threaded process each) and returns
// their outcomes in order.
func RunWorkers(jobs []WorkerJob) []WorkerOutcome {
	out := make([]WorkerOutcome, len(jobs))
	sem := make(chan struct{}, runtime.NumCPU())
	var wg sync.WaitGroup
	for i := range jobs {
		wg.Add(1)
		sem <- struct{}{}
		go func(i int) {
			defer wg.Done()
			defer func() { <-sem }()
			j := jobs[i]
			r, se, err := RunWorker(j.Binary, j.ID, "--worker", j.Arg, j.Env...)
			out[i] = WorkerOutcome{r, se, err}
		}(i)
	}
	wg.Wait()
	return out
}

// EmitWorkerResult prints the result line of a worker process.
func EmitWorkerResult(r *WorkerResult) {
	b, _ := json.Marshal(r)
	fmt.Println("WORKERJSON " + string(b))
}

// SaveRaceReports extracts the race detector's reports (other than the canary's) from the
// workers' stderr into /verif/replays/<id>-race-reports.txt and returns how many there are.
func SaveRaceReports(id, stderr string) int {
	blocks := strings.Split(stderr, "==================")
	var keep []string
	for _, b := range blocks {
		if strings.Contains(b, "WARNING: DATA RACE") && !strings.Contains(b, "canaryH") {
			keep = append(keep, strings.TrimSpace(b))
		}
	}
	path := filepath.Join(Root, "replays", id+"-race-reports.txt")
	if len(keep) == 0 {
		os.Remove(path)
		return 0
	}
	os.MkdirAll(filepath.Dir(path), 0o755)
	os.WriteFile(path, []byte(strings.Join(keep, "\n==================\n")+"\n"), 0o644)
	return len(keep)
}

// BuildDir is where the check script put the binaries.
func BuildDir() string {
	if d := os.Getenv("VERIF_BUILD"); d != "" {
		return d
	}
	return filepath.Join(Root, ".build")
}

// GoMode says how the overlay treated the library's go statements in the binaries in use: "all" (every
// one is a thread of the explorer), "lit" (function literals only) or "off".
func GoMode() string {
	b, err := os.ReadFile(filepath.Join(BuildDir(), "overlay.gomode"))
	if err != nil {
		return "unknown"
	}
	return strings.TrimSpace(string(b))
}
