#!/bin/bash
# [CHECKS="C03 C10"] tools/preserving.sh [tier [patch ...]] — every patch under /verif/preserving keeps all properties; the existing suite and ALL 20
# checks must pass on each of them (no VIOLATION, exit 0).  Runs in scratch worktrees; /repo is untouched.
cd /verif
TIER=${1:-quick}
shift 2>/dev/null
# optional: the patches to run (default: all of preserving/*.diff)
LIST="$*"; [ -n "$LIST" ] || LIST=$(ls preserving/*.diff)
export GOFLAGS=-mod=mod GOPROXY=off GOSUMDB=off GOTOOLCHAIN=local
# Builds against scratch worktrees fill the Go build cache quickly (every worktree path gives new cache
# entries for the whole harness: a few hundred MB each).  They get a cache of their own, emptied when it
# grows beyond 12 GB (flock: several of these scripts may run at once).
export GOCACHE=/tmp/verif-gocache
mkdir -p $GOCACHE
( flock 9; sz=$(du -s --block-size=1G $GOCACHE 2>/dev/null | cut -f1); if [ "${sz:-0}" -gt 12 ]; then rm -rf $GOCACHE/*; fi ) 9>/tmp/verif-gocache.lock
rc=0
for p in $LIST; do
  WT=/tmp/pv-$$; git -C /repo worktree add --detach $WT HEAD -q || exit 2
  git -C $WT apply /verif/$p || { echo "$p: does not apply"; rc=1; }
  (cd $WT && go test -vet=off -count=1 . >/dev/null 2>&1) || { echo "$p: existing suite FAILS"; rc=1; }
  except=$(grep -m1 '^# except:' /verif/$p | sed 's/^# except: *//; s/(.*//')
  for id in ${CHECKS:-C01 C02 C03 C04 C05 C06 C07 C08 C09 C10 C11 C12 C13 C14 C15 C16 C17 C18 C19 C20}; do
    case " $except " in *" $id "*) echo "$p: $id skipped (listed as excepted in the patch header)"; continue ;; esac
    out=$(cd ${VERIF_HOME:-/verif} && VERIF_REPO=$WT VERIF_BUILD=$WT.build VERIF_NO_EVIDENCE=1 timeout 1800 ./check $id --tier $TIER 2>/dev/null); e=$?
    if [ $e -ne 0 ] || echo "$out" | grep -q "^VIOLATION"; then echo "$p: check $id exit=$e :: $(echo "$out" | grep -E 'VIOLATION|INTERNAL' | head -2 | cut -c1-250)"; rc=1; fi
  done
  echo "$p: done"
  git -C /repo worktree remove --force $WT; rm -rf $WT.build
done
exit $rc
