package props

import (
	"math/big"
	"sort"
	"sync"

	"verif/mc/core"
	"verif/mc/dyn"
)

// sweepx: exhaustive sweeps of a value domain through the real batch API.
//
// A domain is a set of ascending sequences of source amplitudes (or, for float sources,
// of float values mapped to an order-preserving integer key).  A sequence is cut into
// shards that run on all cores; inside a shard values go through the real conversion in
// blocks; the "never decreases" check is carried across block and shard borders.

const blockN = 1 << 14

// seqGen returns, for shard i of n, a function filling buf with the next ascending
// values (returns 0 when the shard is exhausted).
type seqGen func(shard, nshards int) func(buf []int64) int

// genRange enumerates every integer of [lo, hi] (hi-lo < 2^62).
func genRange(lo, hi int64) seqGen {
	return func(shard, n int) func([]int64) int {
		total := uint64(hi-lo) + 1
		per := total / uint64(n)
		a := lo + int64(per*uint64(shard))
		b := lo + int64(per*uint64(shard+1)) - 1
		if shard == n-1 {
			b = hi
		}
		cur, done := a, a > b
		return func(buf []int64) int {
			k := 0
			for !done && k < len(buf) {
				buf[k] = cur
				k++
				if cur == b {
					done = true
				} else {
					cur++
				}
			}
			return k
		}
	}
}

// genRepeat enumerates every integer of [lo, hi], each rep times in a row (short domains
// are stretched so that they, too, go through long buffers).
func genRepeat(lo, hi int64, rep int) seqGen {
	return func(shard, n int) func([]int64) int {
		if shard != 0 {
			return func([]int64) int { return 0 }
		}
		cur, k := lo, 0
		done := false
		return func(buf []int64) int {
			c := 0
			for !done && c < len(buf) {
				buf[c] = cur
				c++
				k++
				if k == rep {
					k = 0
					if cur == hi {
						done = true
					} else {
						cur++
					}
				}
			}
			return c
		}
	}
}

// genList enumerates a sorted list.
func genList(list []int64) seqGen {
	return func(shard, n int) func([]int64) int {
		a, b := len(list)*shard/n, len(list)*(shard+1)/n
		return func(buf []int64) int {
			k := copy(buf, list[a:b])
			a += k
			return k
		}
	}
}

// genCells enumerates, for every quantisation cell j in [-2^(bd-1), 2^(bd-1)) of width
// 2^k (k = bs-bd > 0), its first, second, last-but-one and last amplitude (all of them
// when the cell has fewer than 5 values).
func genCells(bs, bd int) seqGen {
	k := uint(bs - bd)
	return func(shard, n int) func([]int64) int {
		cells := uint64(1) << uint(bd)
		j0 := -(int64(1) << uint(bd-1)) + int64(cells*uint64(shard)/uint64(n))
		j1 := -(int64(1) << uint(bd-1)) + int64(cells*uint64(shard+1)/uint64(n))
		var offs []int64
		w := int64(1) << k
		if w <= 4 {
			for o := int64(0); o < w; o++ {
				offs = append(offs, o)
			}
		} else {
			offs = []int64{0, 1, w - 2, w - 1}
		}
		j, oi := j0, 0
		return func(buf []int64) int {
			c := 0
			for j < j1 && c < len(buf) {
				buf[c] = j<<k + offs[oi]
				c++
				oi++
				if oi == len(offs) {
					oi = 0
					j++
				}
			}
			return c
		}
	}
}

func sortedUnique(xs []int64) []int64 {
	sort.Slice(xs, func(i, j int) bool { return xs[i] < xs[j] })
	out := xs[:0]
	for i, x := range xs {
		if i == 0 || x != xs[i-1] {
			out = append(out, x)
		}
	}
	return out
}

// boundaryAlphabet: every amplitude of a bits-wide format within +-3 of 0, +-2^k,
// +-1.5*2^k and of the format's bounds.
func boundaryAlphabet(bits int) []int64 {
	lo, hi := -(int64(1) << uint(bits-1)), int64(1)<<uint(bits-1)-1
	var xs []int64
	add := func(c int64) {
		for d := int64(-3); d <= 3; d++ {
			x := c + d
			if (d < 0 && x > c) || (d > 0 && x < c) { // wrapped
				continue
			}
			if x >= lo && x <= hi {
				xs = append(xs, x)
			}
		}
	}
	add(0)
	add(lo)
	add(hi)
	for k := 0; k < bits-1; k++ {
		p := int64(1) << uint(k)
		add(p)
		add(-p)
		if k >= 1 {
			add(p + p/2)
			add(-(p + p/2))
		}
	}
	return sortedUnique(xs)
}

// shardResult is what a shard hands to the border check.
type shardResult struct {
	any         bool
	firstIn     int64
	firstOut    int64
	lastIn      int64
	lastOut     int64
	lastIdx     int
	lastN       int
	evaluations int64
}

// runSeq drives one ascending sequence through eval on all cores.  eval converts a block
// of inputs to outputs (order keys); point is called for every (in, out); order violations
// are reported through orderFail(prevIn, prevOut, in, out).
func runSeq(c *core.Ctx, gen seqGen, nshards int, chans []int, newEval func(ch int) func(in, out []int64),
	point func(p sweepPos, in, out int64), orderFail func(p sweepPos, pi, po, in, out int64)) int64 {
	return runSeqStrict(c, gen, nshards, chans, false, newEval, point, orderFail)
}

// sweepPos says where in a block a value was converted, and with how many channels.
type sweepPos struct {
	Ch      int // channel count of the buffers of this shard
	Idx     int // interleaved position inside the block
	PrevIdx int // order failures: position of the previous value inside its block
	N       int // number of values in the block
	PrevN   int // ... in the previous value's block
	PrevCh  int // channel count the previous value went through (differs across shard borders)
}

// runSeqStrict: with strict, equal consecutive outputs are order failures too.  Shard k
// converts through buffers with chans[k % len(chans)] channels.
func runSeqStrict(c *core.Ctx, gen seqGen, nshards int, chans []int, strict bool, newEval func(ch int) func(in, out []int64),
	point func(p sweepPos, in, out int64), orderFail func(p sweepPos, pi, po, in, out int64)) int64 {
	res := make([]shardResult, nshards)
	var mu sync.Mutex
	_ = mu
	c.ParallelFor(nshards, func(sh int) {
		next := gen(sh, nshards)
		ch := chans[sh%len(chans)]
		eval := newEval(ch)
		in := make([]int64, blockN)
		out := make([]int64, blockN)
		r := &res[sh]
		for {
			n := next(in)
			if n == 0 {
				break
			}
			eval(in[:n], out[:n])
			for i := 0; i < n; i++ {
				point(sweepPos{ch, i, 0, n, 0, ch}, in[i], out[i])
				if r.any {
					if out[i] < r.lastOut || (strict && out[i] == r.lastOut && in[i] != r.lastIn) {
						orderFail(sweepPos{ch, i, r.lastIdx, n, r.lastN, ch}, r.lastIn, r.lastOut, in[i], out[i])
					}
				} else {
					r.any, r.firstIn, r.firstOut = true, in[i], out[i]
				}
				r.lastIn, r.lastOut, r.lastIdx, r.lastN = in[i], out[i], i, n
			}
			r.evaluations += int64(n)
			if c.Expired() {
				break
			}
		}
	})
	var total int64
	var prev *shardResult
	prevShard := 0
	for i := range res {
		r := &res[i]
		total += r.evaluations
		if !r.any {
			continue
		}
		if prev != nil && (r.firstOut < prev.lastOut || (strict && r.firstOut == prev.lastOut && r.firstIn != prev.lastIn)) {
			// (values of neighbouring shards may have gone through different channel counts; the isolated
			// re-evaluation uses the later shard's)
			orderFail(sweepPos{chans[i%len(chans)], 0, prev.lastIdx, 1, prev.lastN, chans[prevShard%len(chans)]}, prev.lastIn, prev.lastOut, r.firstIn, r.firstOut)
		}
		prev = r
		prevShard = i
	}
	return total
}

func posOf(p sweepPos, pair bool) (chs, pos, lens []int) {
	if pair {
		return []int{p.PrevCh, p.Ch}, []int{p.PrevIdx, p.Idx}, []int{p.PrevN, p.N}
	}
	return []int{p.Ch}, []int{p.Idx}, []int{p.N}
}

// failCap limits how many failures of one kind a sweep re-evaluates and records (the
// first ones in ascending order); the rest are dropped, so counts are lower bounds.
type failCap struct {
	mu  sync.Mutex
	n   map[string]int
	max int
}

func newFailCap(max int) *failCap { return &failCap{n: map[string]int{}, max: max} }

func (f *failCap) ok(kind string) bool {
	f.mu.Lock()
	defer f.mu.Unlock()
	f.n[kind]++
	return f.n[kind] <= f.max
}

// evalAt converts each value on its own, at the interleaved position it had in the sweep,
// in a block of the length it had there (all other positions hold copies of the value), and returns the raw results (and, when
// back is set, the raw results of converting those back).
func evalAt(s, d int, vals []uint64, pos, lens, chs []int, roundtrip bool) (out, back []uint64) {
	out = make([]uint64, len(vals))
	back = make([]uint64, len(vals))
	for i, v := range vals {
		ch := 1
		if i < len(chs) {
			ch = chOr1(chs[i])
		}
		p := 0
		if i < len(pos) {
			p = pos[i]
		}
		n := p + 1
		if i < len(lens) && lens[i] > n {
			n = lens[i]
		}
		in := make([]uint64, n)
		for k := range in {
			in[k] = v
		}
		res := make([]uint64, n)
		dyn.ConvBlockCh(s, d, n, ch)(in, res)
		out[i] = res[p]
		if roundtrip {
			res2 := make([]uint64, n)
			dyn.ConvBlockCh(d, s, n, ch)(res, res2)
			back[i] = res2[p]
		}
	}
	return
}

func chOr1(ch int) int {
	if ch < 1 {
		return 1
	}
	return ch
}

// histDep reports a failure that the sweep observed on the real code but that does not
// show when the value is converted again on its own: the result depends on earlier calls.
func histDep(name, msg string) F {
	return F{Key: name + "/history-dependent", Msg: msg + " (the implementation's result depends on conversions made before)"}
}

// instOrder lists all 169 (source, destination) pairs of built-in types and 104 pairs with a named type; the reverse-order pass visits them backwards.
func instOrder() [][2]int {
	var r [][2]int
	for s := 0; s < dyn.NB; s++ {
		for d := 0; d < dyn.NB; d++ {
			r = append(r, [2]int{s, d})
		}
	}
	// and the pairs with a named element type on one side (MyInt16, MyUint8, MyFloat32, MyFloat64)
	r = append(r, dyn.NamedPairs()...)
	if core.Reversed() {
		for i, j := 0, len(r)-1; i < j; i, j = i+1, j-1 {
			r[i], r[j] = r[j], r[i]
		}
	}
	return r
}

// genLattice enumerates min + i*step for i = 0 .. n-1 (ascending), a fixed arithmetic lattice
// whose odd step makes the low bits vary: values away from the boundary alphabet.
func genLattice(bits int, n int64) seqGen {
	lo := -(int64(1) << uint(bits-1))
	span := new(big.Int).Lsh(big.NewInt(1), uint(bits))
	step := new(big.Int).Div(span, big.NewInt(n)).Int64() | 1
	// the last value lo + (n-1)*step must stay inside the format
	for new(big.Int).Mul(big.NewInt(step), big.NewInt(n-1)).Cmp(span) >= 0 {
		step -= 2
	}
	return func(shard, nsh int) func([]int64) int {
		a, b := n*int64(shard)/int64(nsh), n*int64(shard+1)/int64(nsh)
		i := a
		return func(buf []int64) int {
			k := 0
			for i < b && k < len(buf) {
				buf[k] = int64(uint64(lo) + uint64(i)*uint64(step))
				k++
				i++
			}
			return k
		}
	}
}
