//go:build verif

// Package verifatomic mirrors sync/atomic.  It is injected by the overlay in place of
// "sync/atomic" in pipelined.dev/signal's non-test files so that, under the schedule explorer,
// every atomic operation is preceded by a scheduling point (a check-then-act sequence built
// from atomics can then be interleaved).  Every operation is performed by the real
// sync/atomic, so the race detector sees the same synchronisation as in the original.
package verifatomic

import (
	"sync/atomic"
	"unsafe"
)

// Hook, when set, is called before every atomic operation.
var Hook func(op string)

// (read without the race detector looking: goroutines of the library that outlive an
// execution may still get here while the harness clears the hook)
//
//go:norace
//go:noinline
func hook() func(op string) { return Hook }

// SetHook sets Hook.
//
//go:norace
//go:noinline
func SetHook(h func(op string)) { Hook = h }

func point(op string) {
	if h := hook(); h != nil {
		h(op)
	}
}

func AddInt32(addr *int32, delta int32) int32 {
	point("atomic.AddInt32")
	return atomic.AddInt32(addr, delta)
}
func AndInt32(addr *int32, mask int32) int32 {
	point("atomic.AndInt32")
	return atomic.AndInt32(addr, mask)
}
func OrInt32(addr *int32, mask int32) int32 {
	point("atomic.OrInt32")
	return atomic.OrInt32(addr, mask)
}
func CompareAndSwapInt32(addr *int32, old, new int32) bool {
	point("atomic.CompareAndSwapInt32")
	return atomic.CompareAndSwapInt32(addr, old, new)
}
func LoadInt32(addr *int32) int32       { point("atomic.LoadInt32"); return atomic.LoadInt32(addr) }
func StoreInt32(addr *int32, val int32) { point("atomic.StoreInt32"); atomic.StoreInt32(addr, val) }
func SwapInt32(addr *int32, new int32) int32 {
	point("atomic.SwapInt32")
	return atomic.SwapInt32(addr, new)
}

// Int32 mirrors atomic.Int32.
type Int32 struct{ v atomic.Int32 }

func (x *Int32) Load() int32          { point("atomic.Int32.Load"); return x.v.Load() }
func (x *Int32) Store(val int32)      { point("atomic.Int32.Store"); x.v.Store(val) }
func (x *Int32) Swap(new int32) int32 { point("atomic.Int32.Swap"); return x.v.Swap(new) }
func (x *Int32) CompareAndSwap(old, new int32) bool {
	point("atomic.Int32.CompareAndSwap")
	return x.v.CompareAndSwap(old, new)
}
func (x *Int32) Add(delta int32) int32 { point("atomic.Int32.Add"); return x.v.Add(delta) }
func (x *Int32) And(mask int32) int32  { point("atomic.Int32.And"); return x.v.And(mask) }
func (x *Int32) Or(mask int32) int32   { point("atomic.Int32.Or"); return x.v.Or(mask) }

func AddInt64(addr *int64, delta int64) int64 {
	point("atomic.AddInt64")
	return atomic.AddInt64(addr, delta)
}
func AndInt64(addr *int64, mask int64) int64 {
	point("atomic.AndInt64")
	return atomic.AndInt64(addr, mask)
}
func OrInt64(addr *int64, mask int64) int64 {
	point("atomic.OrInt64")
	return atomic.OrInt64(addr, mask)
}
func CompareAndSwapInt64(addr *int64, old, new int64) bool {
	point("atomic.CompareAndSwapInt64")
	return atomic.CompareAndSwapInt64(addr, old, new)
}
func LoadInt64(addr *int64) int64       { point("atomic.LoadInt64"); return atomic.LoadInt64(addr) }
func StoreInt64(addr *int64, val int64) { point("atomic.StoreInt64"); atomic.StoreInt64(addr, val) }
func SwapInt64(addr *int64, new int64) int64 {
	point("atomic.SwapInt64")
	return atomic.SwapInt64(addr, new)
}

// Int64 mirrors atomic.Int64.
type Int64 struct{ v atomic.Int64 }

func (x *Int64) Load() int64          { point("atomic.Int64.Load"); return x.v.Load() }
func (x *Int64) Store(val int64)      { point("atomic.Int64.Store"); x.v.Store(val) }
func (x *Int64) Swap(new int64) int64 { point("atomic.Int64.Swap"); return x.v.Swap(new) }
func (x *Int64) CompareAndSwap(old, new int64) bool {
	point("atomic.Int64.CompareAndSwap")
	return x.v.CompareAndSwap(old, new)
}
func (x *Int64) Add(delta int64) int64 { point("atomic.Int64.Add"); return x.v.Add(delta) }
func (x *Int64) And(mask int64) int64  { point("atomic.Int64.And"); return x.v.And(mask) }
func (x *Int64) Or(mask int64) int64   { point("atomic.Int64.Or"); return x.v.Or(mask) }

func AddUint32(addr *uint32, delta uint32) uint32 {
	point("atomic.AddUint32")
	return atomic.AddUint32(addr, delta)
}
func AndUint32(addr *uint32, mask uint32) uint32 {
	point("atomic.AndUint32")
	return atomic.AndUint32(addr, mask)
}
func OrUint32(addr *uint32, mask uint32) uint32 {
	point("atomic.OrUint32")
	return atomic.OrUint32(addr, mask)
}
func CompareAndSwapUint32(addr *uint32, old, new uint32) bool {
	point("atomic.CompareAndSwapUint32")
	return atomic.CompareAndSwapUint32(addr, old, new)
}
func LoadUint32(addr *uint32) uint32 { point("atomic.LoadUint32"); return atomic.LoadUint32(addr) }
func StoreUint32(addr *uint32, val uint32) {
	point("atomic.StoreUint32")
	atomic.StoreUint32(addr, val)
}
func SwapUint32(addr *uint32, new uint32) uint32 {
	point("atomic.SwapUint32")
	return atomic.SwapUint32(addr, new)
}

// Uint32 mirrors atomic.Uint32.
type Uint32 struct{ v atomic.Uint32 }

func (x *Uint32) Load() uint32           { point("atomic.Uint32.Load"); return x.v.Load() }
func (x *Uint32) Store(val uint32)       { point("atomic.Uint32.Store"); x.v.Store(val) }
func (x *Uint32) Swap(new uint32) uint32 { point("atomic.Uint32.Swap"); return x.v.Swap(new) }
func (x *Uint32) CompareAndSwap(old, new uint32) bool {
	point("atomic.Uint32.CompareAndSwap")
	return x.v.CompareAndSwap(old, new)
}
func (x *Uint32) Add(delta uint32) uint32 { point("atomic.Uint32.Add"); return x.v.Add(delta) }
func (x *Uint32) And(mask uint32) uint32  { point("atomic.Uint32.And"); return x.v.And(mask) }
func (x *Uint32) Or(mask uint32) uint32   { point("atomic.Uint32.Or"); return x.v.Or(mask) }

func AddUint64(addr *uint64, delta uint64) uint64 {
	point("atomic.AddUint64")
	return atomic.AddUint64(addr, delta)
}
func AndUint64(addr *uint64, mask uint64) uint64 {
	point("atomic.AndUint64")
	return atomic.AndUint64(addr, mask)
}
func OrUint64(addr *uint64, mask uint64) uint64 {
	point("atomic.OrUint64")
	return atomic.OrUint64(addr, mask)
}
func CompareAndSwapUint64(addr *uint64, old, new uint64) bool {
	point("atomic.CompareAndSwapUint64")
	return atomic.CompareAndSwapUint64(addr, old, new)
}
func LoadUint64(addr *uint64) uint64 { point("atomic.LoadUint64"); return atomic.LoadUint64(addr) }
func StoreUint64(addr *uint64, val uint64) {
	point("atomic.StoreUint64")
	atomic.StoreUint64(addr, val)
}
func SwapUint64(addr *uint64, new uint64) uint64 {
	point("atomic.SwapUint64")
	return atomic.SwapUint64(addr, new)
}

// Uint64 mirrors atomic.Uint64.
type Uint64 struct{ v atomic.Uint64 }

func (x *Uint64) Load() uint64           { point("atomic.Uint64.Load"); return x.v.Load() }
func (x *Uint64) Store(val uint64)       { point("atomic.Uint64.Store"); x.v.Store(val) }
func (x *Uint64) Swap(new uint64) uint64 { point("atomic.Uint64.Swap"); return x.v.Swap(new) }
func (x *Uint64) CompareAndSwap(old, new uint64) bool {
	point("atomic.Uint64.CompareAndSwap")
	return x.v.CompareAndSwap(old, new)
}
func (x *Uint64) Add(delta uint64) uint64 { point("atomic.Uint64.Add"); return x.v.Add(delta) }
func (x *Uint64) And(mask uint64) uint64  { point("atomic.Uint64.And"); return x.v.And(mask) }
func (x *Uint64) Or(mask uint64) uint64   { point("atomic.Uint64.Or"); return x.v.Or(mask) }

func AddUintptr(addr *uintptr, delta uintptr) uintptr {
	point("atomic.AddUintptr")
	return atomic.AddUintptr(addr, delta)
}
func AndUintptr(addr *uintptr, mask uintptr) uintptr {
	point("atomic.AndUintptr")
	return atomic.AndUintptr(addr, mask)
}
func OrUintptr(addr *uintptr, mask uintptr) uintptr {
	point("atomic.OrUintptr")
	return atomic.OrUintptr(addr, mask)
}
func CompareAndSwapUintptr(addr *uintptr, old, new uintptr) bool {
	point("atomic.CompareAndSwapUintptr")
	return atomic.CompareAndSwapUintptr(addr, old, new)
}
func LoadUintptr(addr *uintptr) uintptr { point("atomic.LoadUintptr"); return atomic.LoadUintptr(addr) }
func StoreUintptr(addr *uintptr, val uintptr) {
	point("atomic.StoreUintptr")
	atomic.StoreUintptr(addr, val)
}
func SwapUintptr(addr *uintptr, new uintptr) uintptr {
	point("atomic.SwapUintptr")
	return atomic.SwapUintptr(addr, new)
}

// Uintptr mirrors atomic.Uintptr.
type Uintptr struct{ v atomic.Uintptr }

func (x *Uintptr) Load() uintptr            { point("atomic.Uintptr.Load"); return x.v.Load() }
func (x *Uintptr) Store(val uintptr)        { point("atomic.Uintptr.Store"); x.v.Store(val) }
func (x *Uintptr) Swap(new uintptr) uintptr { point("atomic.Uintptr.Swap"); return x.v.Swap(new) }
func (x *Uintptr) CompareAndSwap(old, new uintptr) bool {
	point("atomic.Uintptr.CompareAndSwap")
	return x.v.CompareAndSwap(old, new)
}
func (x *Uintptr) Add(delta uintptr) uintptr { point("atomic.Uintptr.Add"); return x.v.Add(delta) }
func (x *Uintptr) And(mask uintptr) uintptr  { point("atomic.Uintptr.And"); return x.v.And(mask) }
func (x *Uintptr) Or(mask uintptr) uintptr   { point("atomic.Uintptr.Or"); return x.v.Or(mask) }

func CompareAndSwapPointer(addr *unsafe.Pointer, old, new unsafe.Pointer) bool {
	point("atomic.CompareAndSwapPointer")
	return atomic.CompareAndSwapPointer(addr, old, new)
}
func LoadPointer(addr *unsafe.Pointer) unsafe.Pointer {
	point("atomic.LoadPointer")
	return atomic.LoadPointer(addr)
}
func StorePointer(addr *unsafe.Pointer, val unsafe.Pointer) {
	point("atomic.StorePointer")
	atomic.StorePointer(addr, val)
}
func SwapPointer(addr *unsafe.Pointer, new unsafe.Pointer) unsafe.Pointer {
	point("atomic.SwapPointer")
	return atomic.SwapPointer(addr, new)
}

// Bool mirrors atomic.Bool.
type Bool struct{ v atomic.Bool }

func (x *Bool) Load() bool         { point("atomic.Bool.Load"); return x.v.Load() }
func (x *Bool) Store(val bool)     { point("atomic.Bool.Store"); x.v.Store(val) }
func (x *Bool) Swap(new bool) bool { point("atomic.Bool.Swap"); return x.v.Swap(new) }
func (x *Bool) CompareAndSwap(old, new bool) bool {
	point("atomic.Bool.CompareAndSwap")
	return x.v.CompareAndSwap(old, new)
}

// Pointer mirrors atomic.Pointer.
type Pointer[T any] struct{ v atomic.Pointer[T] }

func (x *Pointer[T]) Load() *T       { point("atomic.Pointer.Load"); return x.v.Load() }
func (x *Pointer[T]) Store(val *T)   { point("atomic.Pointer.Store"); x.v.Store(val) }
func (x *Pointer[T]) Swap(new *T) *T { point("atomic.Pointer.Swap"); return x.v.Swap(new) }
func (x *Pointer[T]) CompareAndSwap(old, new *T) bool {
	point("atomic.Pointer.CompareAndSwap")
	return x.v.CompareAndSwap(old, new)
}

// Value mirrors atomic.Value.
type Value struct{ v atomic.Value }

func (x *Value) Load() any        { point("atomic.Value.Load"); return x.v.Load() }
func (x *Value) Store(val any)    { point("atomic.Value.Store"); x.v.Store(val) }
func (x *Value) Swap(new any) any { point("atomic.Value.Swap"); return x.v.Swap(new) }
func (x *Value) CompareAndSwap(old, new any) bool {
	point("atomic.Value.CompareAndSwap")
	return x.v.CompareAndSwap(old, new)
}
