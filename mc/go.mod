module verif/mc

go 1.21

require (
	golang.org/x/exp v0.0.0-20230817173708-d852ddb80c63
	pipelined.dev/signal v0.0.0
)

replace pipelined.dev/signal => /repo
