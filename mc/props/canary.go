package props

import (
	"fmt"
	"runtime"
	"sync/atomic"

	"verif/mc/core"
	"verif/mc/schedx"
)

// raceCanary proves that the race monitor is live and not over-eager in this process:
// under the baton, two threads writing the same word must be reported, two threads writing
// adjacent int8 cells and two threads ordered by an atomic store/load must not.

type canaryH struct {
	mode  int // 0 racy, 1 adjacent cells, 2 ordered by atomic
	cells []int8
	flag  uint32
}

func (h *canaryH) Threads() int { return 2 }
func (h *canaryH) Init()        { h.cells = make([]int8, 8); h.flag = 0 }
func (h *canaryH) Run(id int) {
	schedx.Point("a")
	switch h.mode {
	case 0:
		h.cells[3] = int8(id + 1)
	case 1:
		h.cells[3+id] = int8(id + 1)
	case 2:
		if id == 0 {
			h.cells[3] = 1
			atomic.StoreUint32(&h.flag, 1)
		} else if atomic.LoadUint32(&h.flag) == 1 {
			h.cells[3] = 2
		}
	}
	schedx.Point("b")
}
func (h *canaryH) Finish() []string    { return nil }
func (h *canaryH) Key() (uint64, bool) { return 0, false }

func raceCanary() error {
	if !core.RaceEnabled {
		return fmt.Errorf("not a -race build")
	}
	old := runtime.GOMAXPROCS(1)
	defer runtime.GOMAXPROCS(old)
	run := func(mode int) int {
		before := core.RaceErrors()
		e := &schedx.Explorer{H: &canaryH{mode: mode}, Bound: -1}
		e.Explore()
		return core.RaceErrors() - before
	}
	if n := run(1); n != 0 {
		return fmt.Errorf("canary: writes to adjacent int8 cells by two threads were reported as a race (%d)", n)
	}
	if n := run(2); n != 0 {
		return fmt.Errorf("canary: accesses ordered by an atomic store/load were reported as a race (%d)", n)
	}
	if n := run(0); n == 0 {
		return fmt.Errorf("canary: two baton-serialised threads writing the same word were NOT reported: the monitor is blind")
	}
	return nil
}
