package schedx

import (
	"fmt"
	"runtime"
)

// indep: two threads with a and b points each, touching nothing shared.
type indep struct{ a, b int }

func (h *indep) Threads() int { return 2 }
func (h *indep) Init()        {}
func (h *indep) Run(id int) {
	n := h.a
	if id == 1 {
		n = h.b
	}
	for i := 0; i < n; i++ {
		Point("step")
	}
}
func (h *indep) Finish() []string    { return nil }
func (h *indep) Key() (uint64, bool) { return 0, false }

// lostUpdate: two threads doing tmp := x; point; x = tmp + 1 (the accesses are made in
// norace helpers: this self-test is about the scheduler, not the monitor).
type lostUpdate struct {
	x   int
	tmp [2]int // thread-local values are part of the state key
}

//go:norace
func (h *lostUpdate) load() int { return h.x }

//go:norace
func (h *lostUpdate) store(v int) { h.x = v }

func (h *lostUpdate) Threads() int { return 2 }
func (h *lostUpdate) Init()        { h.store(0); h.setTmp(0, 0); h.setTmp(1, 0) }
func (h *lostUpdate) Run(id int) {
	Point("read")
	h.setTmp(id, h.load())
	Point("write")
	h.store(h.getTmp(id) + 1)
}
func (h *lostUpdate) Finish() []string {
	if h.load() != 2 {
		return []string{fmt.Sprintf("lost update: x = %d", h.load())}
	}
	return nil
}
func (h *lostUpdate) Key() (uint64, bool) {
	return uint64(h.load())<<16 | uint64(h.getTmp(0))<<8 | uint64(h.getTmp(1)), true
}

//go:norace
func (h *lostUpdate) setTmp(id, v int) { h.tmp[id] = v }

//go:norace
func (h *lostUpdate) getTmp(id int) int { return h.tmp[id] }

func binom(n, k int) int64 {
	r := int64(1)
	for i := 1; i <= k; i++ {
		r = r * int64(n-k+i) / int64(i)
	}
	return r
}

// SelfTest checks the explorer against known counts.
func SelfTest() error {
	old := runtime.GOMAXPROCS(1)
	defer runtime.GOMAXPROCS(old)
	for _, ab := range [][2]int{{1, 1}, {2, 2}, {3, 2}, {4, 4}} {
		e := &Explorer{H: &indep{ab[0], ab[1]}, Bound: -1}
		if err := e.Explore(); err != nil {
			return err
		}
		// a thread with k points has k+1 segments
		want := binom(ab[0]+ab[1]+2, ab[0]+1)
		if e.Executions != want {
			return fmt.Errorf("indep(%d,%d): %d executions, want %d", ab[0], ab[1], e.Executions, want)
		}
	}
	// preemption bound 0: only non-preemptive schedules: 2 (which thread first)
	e := &Explorer{H: &indep{3, 3}, Bound: 0}
	if err := e.Explore(); err != nil {
		return err
	}
	if e.Executions != 2 {
		return fmt.Errorf("indep(3,3) bound 0: %d executions, want 2", e.Executions)
	}
	found := func(bound int, prune bool) (int64, int64, error) {
		var bad int64
		e := &Explorer{H: &lostUpdate{}, Bound: bound, Prune: prune}
		e.OnExec = func(x *Execution) { bad += int64(len(x.Failures)) }
		err := e.Explore()
		return bad, e.Executions, err
	}
	if b, _, err := found(0, false); err != nil || b != 0 {
		return fmt.Errorf("lost update must not be found at bound 0 (found %d, err %v)", b, err)
	}
	if b, _, err := found(1, false); err != nil || b == 0 {
		return fmt.Errorf("lost update must be found at bound 1 (err %v)", err)
	}
	b1, n1, err := found(-1, false)
	if err != nil || b1 == 0 {
		return fmt.Errorf("lost update must be found unbounded (err %v)", err)
	}
	b2, n2, err := found(-1, true)
	if err != nil || b2 == 0 || n2 > n1 {
		return fmt.Errorf("lost update must be found with state pruning too (found %d in %d executions vs %d, err %v)", b2, n2, n1, err)
	}
	// replay determinism: the same prefix gives the same record twice
	ex := &Explorer{H: &lostUpdate{}, Bound: -1}
	x1, _ := ex.Run([]int{1, 0, 1})
	x2, _ := ex.Run([]int{1, 0, 1})
	if fmt.Sprint(x1.Choices, x1.Failures) != fmt.Sprint(x2.Choices, x2.Failures) {
		return fmt.Errorf("replay not deterministic: %v vs %v", x1, x2)
	}
	if _, err := ex.Run([]int{5}); err == nil {
		return fmt.Errorf("an out-of-range replayed choice must be a hard error")
	}
	return nil
}
