// overlaytool writes a `go build -overlay` file that compiles the *current* working tree
// of /repo with package sync replaced by the controlled shim (verif/mc/shim), without
// touching /repo on disk.
//
//	overlaytool -repo /repo -shim /verif/mc/shim/vsync.go -out /verif/.build
package main

import (
	"bytes"
	"encoding/json"
	"flag"
	"fmt"
	"go/ast"
	"go/format"
	"go/parser"
	"go/token"
	"io/fs"
	"os"
	"path/filepath"
	"strconv"
	"strings"
)

func main() {
	repo := flag.String("repo", "/repo", "repository root")
	shim := flag.String("shim", "/verif/mc/shim/vsync.go", "shim source")
	shimAtomic := flag.String("shimatomic", "/verif/mc/shimatomic/vatomic.go", "sync/atomic shim source")
	out := flag.String("out", "/verif/.build", "output directory")
	flag.Parse()

	modPath := modulePath(filepath.Join(*repo, "go.mod"))
	shimImport := modPath + "/verifsync"
	atomicImport := modPath + "/verifatomic"
	replace := map[string]string{}
	ovDir := filepath.Join(*out, "overlay")
	os.RemoveAll(ovDir)
	must(os.MkdirAll(ovDir, 0o755))

	rewritten := 0
	err := filepath.WalkDir(*repo, func(path string, d fs.DirEntry, err error) error {
		if err != nil {
			return err
		}
		name := d.Name()
		if d.IsDir() {
			if path != *repo && (strings.HasPrefix(name, ".") || name == "testdata" || name == "vendor" || name == "verifsync" || name == "verifatomic") {
				return filepath.SkipDir
			}
			return nil
		}
		if !strings.HasSuffix(name, ".go") || strings.HasSuffix(name, "_test.go") {
			return nil
		}
		fset := token.NewFileSet()
		f, err := parser.ParseFile(fset, path, nil, parser.ParseComments)
		if err != nil {
			// let the compiler report it
			return nil
		}
		changed := false
		for _, imp := range f.Imports {
			p, _ := strconv.Unquote(imp.Path.Value)
			switch p {
			case "sync":
				imp.Path.Value = strconv.Quote(shimImport)
				if imp.Name == nil {
					imp.Name = ast.NewIdent("sync")
				}
				changed = true
			case "sync/atomic":
				imp.Path.Value = strconv.Quote(atomicImport)
				if imp.Name == nil {
					imp.Name = ast.NewIdent("atomic")
				}
				changed = true
			}
		}
		if !changed {
			return nil
		}
		var buf bytes.Buffer
		must(format.Node(&buf, fset, f))
		rel, _ := filepath.Rel(*repo, path)
		dst := filepath.Join(ovDir, rel)
		must(os.MkdirAll(filepath.Dir(dst), 0o755))
		must(os.WriteFile(dst, buf.Bytes(), 0o644))
		replace[path] = dst
		rewritten++
		return nil
	})
	must(err)
	replace[filepath.Join(*repo, "verifsync", "vsync.go")] = *shim
	replace[filepath.Join(*repo, "verifatomic", "vatomic.go")] = *shimAtomic
	js, _ := json.MarshalIndent(map[string]any{"Replace": replace}, "", " ")
	must(os.WriteFile(filepath.Join(*out, "overlay.json"), js, 0o644))
	fmt.Fprintf(os.Stderr, "overlaytool: %d file(s) rewritten to use %s\n", rewritten, shimImport)
}

func modulePath(gomod string) string {
	b, err := os.ReadFile(gomod)
	must(err)
	for _, l := range strings.Split(string(b), "\n") {
		l = strings.TrimSpace(l)
		if strings.HasPrefix(l, "module ") {
			return strings.TrimSpace(strings.TrimPrefix(l, "module "))
		}
	}
	panic("no module line in " + gomod)
}

func must(err error) {
	if err != nil {
		fmt.Fprintln(os.Stderr, "overlaytool:", err)
		os.Exit(2)
	}
}
