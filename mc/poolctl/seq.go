//go:build verif

// Package poolctl implements verifsync.Controller for the explorers.
package poolctl

import (
	"fmt"
	"syscall"

	vs "pipelined.dev/signal/verifsync"
)

// Seq is the controller of one sequential history (bound to one goroutine).  Which item a
// Get returns is decided by Choose; items live in per-pool free lists that the oracle can
// inspect.
type Seq struct {
	Free map[*vs.Pool][]any
	// Choose returns an index into the free list (length n) or n for "call New".
	Choose func(n int) int
	Gets   int
	Puts   int
	News   int
	held   map[*vs.Mutex]bool
	tid    int
}

func NewSeq(choose func(n int) int) *Seq {
	return &Seq{Free: map[*vs.Pool][]any{}, Choose: choose, held: map[*vs.Mutex]bool{}}
}

func (s *Seq) PoolGet(p *vs.Pool) (any, bool) {
	if t := syscall.Gettid(); t != s.tid {
		panic(fmt.Sprintf("poolctl: Get routed to the controller bound on thread %d from thread %d", s.tid, t))
	}
	s.Gets++
	fl := s.Free[p]
	k := len(fl)
	if s.Choose != nil {
		k = s.Choose(len(fl))
	}
	if k >= len(fl) {
		s.News++
		return nil, false
	}
	x := fl[k]
	s.Free[p] = append(append([]any{}, fl[:k]...), fl[k+1:]...)
	return x, true
}

func (s *Seq) PoolPut(p *vs.Pool, x any) {
	s.Puts++
	s.Free[p] = append(s.Free[p], x)
}

// FreeCount is the total number of pooled items.
func (s *Seq) FreeCount() int {
	n := 0
	for _, fl := range s.Free {
		n += len(fl)
	}
	return n
}

// AllFree returns every pooled item.
func (s *Seq) AllFree() []any {
	var r []any
	for _, fl := range s.Free {
		r = append(r, fl...)
	}
	return r
}

func (s *Seq) Lock(m *vs.Mutex) {
	if s.held[m] {
		panic("verif: sequential history locks a mutex it already holds (deadlock)")
	}
	s.held[m] = true
}

func (s *Seq) Unlock(m *vs.Mutex) { delete(s.held, m) }

// Bind attaches s to the calling goroutine; the returned function detaches it.
func (s *Seq) Bind() func() {
	vs.Bind(s)
	s.tid = syscall.Gettid()
	return func() {
		if t := syscall.Gettid(); t != s.tid {
			panic(fmt.Sprintf("poolctl: bound on thread %d, unbinding on thread %d", s.tid, t))
		}
		vs.Unbind()
	}
}
