package props

import (
	"encoding/json"
	"fmt"
	"math/big"

	"pipelined.dev/signal"
	"verif/mc/core"
)

// C16 — bit-depth arithmetic is exact for every depth from 1 to 64.

type c16Case struct {
	Fn    string // bounds | signed | unsigned | scale
	Depth int
	Val   int64  // signed argument
	UVal  uint64 // unsigned argument
	Low   int    // scale: low depth
	Type  string // scale: integer type
}

var scaleFns = map[string]func(h, l signal.BitDepth) *big.Int{
	"int8":   func(h, l signal.BitDepth) *big.Int { return big.NewInt(int64(signal.Scale[int8](h, l))) },
	"int16":  func(h, l signal.BitDepth) *big.Int { return big.NewInt(int64(signal.Scale[int16](h, l))) },
	"int32":  func(h, l signal.BitDepth) *big.Int { return big.NewInt(int64(signal.Scale[int32](h, l))) },
	"int64":  func(h, l signal.BitDepth) *big.Int { return big.NewInt(signal.Scale[int64](h, l)) },
	"int":    func(h, l signal.BitDepth) *big.Int { return big.NewInt(int64(signal.Scale[int](h, l))) },
	"uint8":  func(h, l signal.BitDepth) *big.Int { return new(big.Int).SetUint64(uint64(signal.Scale[uint8](h, l))) },
	"uint16": func(h, l signal.BitDepth) *big.Int { return new(big.Int).SetUint64(uint64(signal.Scale[uint16](h, l))) },
	"uint32": func(h, l signal.BitDepth) *big.Int { return new(big.Int).SetUint64(uint64(signal.Scale[uint32](h, l))) },
	"uint64": func(h, l signal.BitDepth) *big.Int { return new(big.Int).SetUint64(signal.Scale[uint64](h, l)) },
	"uint":   func(h, l signal.BitDepth) *big.Int { return new(big.Int).SetUint64(uint64(signal.Scale[uint](h, l))) },
	"uintptr": func(h, l signal.BitDepth) *big.Int {
		return new(big.Int).SetUint64(uint64(signal.Scale[uintptr](h, l)))
	},
}

var scaleTypes = []struct {
	name     string
	maxShift int // largest k with 2^k representable
}{
	{"int8", 6}, {"int16", 14}, {"int32", 30}, {"int64", 62}, {"int", 62},
	{"uint8", 7}, {"uint16", 15}, {"uint32", 31}, {"uint64", 63}, {"uint", 63}, {"uintptr", 63},
}

func pow2(k int) *big.Int { return new(big.Int).Lsh(big.NewInt(1), uint(k)) }

func c16Run(cs c16Case) (fs []F) {
	b := signal.BitDepth(cs.Depth)
	fail := func(kind, format string, a ...any) {
		fs = append(fs, F{Key: "BitDepth/" + kind, Code: int64(cs.Depth), HasCode: true, Msg: fmt.Sprintf("depth %d: ", cs.Depth) + fmt.Sprintf(format, a...)})
	}
	maxS := new(big.Int).Sub(pow2(cs.Depth-1), big.NewInt(1))
	minS := new(big.Int).Neg(pow2(cs.Depth - 1))
	maxU := new(big.Int).Sub(pow2(cs.Depth), big.NewInt(1))
	switch cs.Fn {
	case "bounds":
		if g := big.NewInt(b.MaxSignedValue()); g.Cmp(maxS) != 0 {
			fail("max-signed", "MaxSignedValue = %v, want %v", g, maxS)
		}
		if g := big.NewInt(b.MinSignedValue()); g.Cmp(minS) != 0 {
			fail("min-signed", "MinSignedValue = %v, want %v", g, minS)
		}
		if g := new(big.Int).SetUint64(b.MaxUnsignedValue()); g.Cmp(maxU) != 0 {
			fail("max-unsigned", "MaxUnsignedValue = %v, want %v", g, maxU)
		}
	case "signed":
		v := big.NewInt(cs.Val)
		want := v
		if v.Cmp(minS) < 0 {
			want = minS
		} else if v.Cmp(maxS) > 0 {
			want = maxS
		}
		g := b.SignedValue(cs.Val)
		if big.NewInt(g).Cmp(want) != 0 {
			fail("signed-clip", "SignedValue(%d) = %d, want %v", cs.Val, g, want)
		}
		if g2 := b.SignedValue(g); g2 != g {
			fail("signed-idempotent", "SignedValue(SignedValue(%d)) = %d, not %d", cs.Val, g2, g)
		}
	case "unsigned":
		v := new(big.Int).SetUint64(cs.UVal)
		want := v
		if v.Cmp(maxU) > 0 {
			want = maxU
		}
		g := b.UnsignedValue(cs.UVal)
		if new(big.Int).SetUint64(g).Cmp(want) != 0 {
			fail("unsigned-clip", "UnsignedValue(%d) = %d, want %v", cs.UVal, g, want)
		}
		if g2 := b.UnsignedValue(g); g2 != g {
			fail("unsigned-idempotent", "UnsignedValue(UnsignedValue(%d)) = %d, not %d", cs.UVal, g2, g)
		}
	case "scale":
		g := scaleFns[cs.Type](signal.BitDepth(cs.Depth), signal.BitDepth(cs.Low))
		if g.Cmp(pow2(cs.Depth-cs.Low)) != 0 {
			fs = append(fs, core.Failf("Scale/"+cs.Type, "Scale[%s](%d,%d) = %v, want 2^%d", cs.Type, cs.Depth, cs.Low, g, cs.Depth-cs.Low))
		}
	}
	return
}

func unsignedAlphabet() []uint64 {
	set := map[uint64]bool{}
	add := func(c uint64) {
		for d := uint64(0); d <= 3; d++ {
			if c+d >= c {
				set[c+d] = true
			}
			if c-d <= c {
				set[c-d] = true
			}
		}
	}
	add(0)
	add(^uint64(0))
	for k := 0; k < 64; k++ {
		p := uint64(1) << uint(k)
		add(p)
		if k >= 1 && k < 63 {
			add(p + p/2)
		}
	}
	var r []uint64
	for x := range set {
		r = append(r, x)
	}
	return r
}

func init() {
	core.Register(&core.Prop{
		ID: "C16", Level: "exploration", Design: "§5 C16",
		Run: func(c *core.Ctx) {
			sAlpha := boundaryAlphabet(64)
			uAlpha := unsignedAlphabet()
			c.ParallelFor(64, func(i int) {
				d := i + 1
				var n, nt int64
				chk := func(cs c16Case) {
					fs := c16Run(cs)
					n++
					nt++
					if len(fs) > 0 {
						c.Fail(cs, fs...)
					}
				}
				chk(c16Case{Fn: "bounds", Depth: d})
				// order preservation along the sorted alphabet
				b := signal.BitDepth(d)
				var prev int64
				for k, v := range sAlpha {
					chk(c16Case{Fn: "signed", Depth: d, Val: v})
					g := b.SignedValue(v)
					if k > 0 && g < prev {
						c.Fail(c16Case{Fn: "signed", Depth: d, Val: v}, F{Key: "BitDepth/signed-order", Code: int64(d), HasCode: true, Msg: fmt.Sprintf("depth %d: SignedValue not monotone at %d", d, v)})
					}
					prev = g
				}
				for _, v := range uAlpha {
					chk(c16Case{Fn: "unsigned", Depth: d, UVal: v})
				}
				// values away from the boundaries: an arithmetic lattice over the whole 64-bit range
				const nl = 1 << 14
				step := (^uint64(0))/nl | 1
				for i := uint64(0); i < nl; i++ {
					u := i * step
					chk(c16Case{Fn: "unsigned", Depth: d, UVal: u})
					chk(c16Case{Fn: "signed", Depth: d, Val: int64(u + 1<<63)})
				}
				if d <= 16 {
					for v := int64(-1 << 17); v <= 1<<17; v++ {
						chk(c16Case{Fn: "signed", Depth: d, Val: v})
						if v >= 0 {
							chk(c16Case{Fn: "unsigned", Depth: d, UVal: uint64(v)})
						}
					}
				}
				for l := 1; l <= d; l++ {
					for _, st := range scaleTypes {
						if d-l <= st.maxShift {
							chk(c16Case{Fn: "scale", Depth: d, Low: l, Type: st.name})
						}
					}
				}
				c.Eval(n, nt)
			})
			c.Sample(c16Case{Fn: "signed", Depth: 64, Val: -1 << 63})
			c.Sample(c16Case{Fn: "scale", Depth: 64, Low: 1, Type: "uint64"})
			c.Sample(c16Case{Fn: "bounds", Depth: 63})
			c.Set("rule", "all 64 depths x (bounds; SignedValue over every int64 within +-3 of 0, +-2^k, +-1.5*2^k and the bounds; UnsignedValue over the unsigned analogue; a lattice of 2^14 values with an odd step across the whole 64-bit range; for depths <= 16 additionally every value in [-2^17, 2^17]) and Scale[T](h,l) for all pairs h>=l and all 11 integer types where 2^(h-l) fits T; oracle in math/big; each (function, depth, argument) enumerated once, all non-trivial")
			c.Assume("64-bit arguments outside the alphabet are not covered")
		},
		RunCase: func(c *core.Ctx, raw json.RawMessage) []F { return c16Run(decode[c16Case](raw)) },
	})
}
