//go:build verif

package poolctl

import (
	"sync/atomic"

	vs "pipelined.dev/signal/verifsync"
	"verif/mc/schedx"
)

// Sched is the process-wide controller used under the schedule explorer: every Pool.Get
// and Pool.Put is a scheduling point, which item a Get returns is an environment answer,
// and the only synchronisation the race detector gets to see is what sync.Pool documents:
// a Put(x) happens before the Get that returns that x (one atomic word per put).
//
// All bookkeeping lives in fixed arrays touched only inside //go:norace functions.
type Sched struct{}

const maxPuts = 256

type entry struct {
	pool *vs.Pool
	item any
	live bool
}

var (
	entries [maxPuts]entry
	words   [maxPuts]uint32
	nPuts   int
	// statistics
	GetsFromPool int
	GetsNew      int
)

// ResetSched clears the pool contents (start of an execution).
//
//go:norace
//go:noinline
func ResetSched() {
	for i := 0; i < nPuts; i++ {
		entries[i] = entry{}
	}
	nPuts = 0
}

//go:norace
//go:noinline
func liveOf(p *vs.Pool, out *[maxPuts]int) int {
	n := 0
	for i := nPuts - 1; i >= 0; i-- { // most recently put first
		if entries[i].live && entries[i].pool == p {
			out[n] = i
			n++
		}
	}
	return n
}

//go:norace
//go:noinline
func take(i int) any {
	entries[i].live = false
	x := entries[i].item
	entries[i].item = nil
	return x
}

//go:norace
//go:noinline
func add(p *vs.Pool, x any) int {
	if nPuts == maxPuts {
		return -1 // full: the item is dropped, as a pool may always do
	}
	i := nPuts
	entries[i] = entry{pool: p, item: x, live: true}
	nPuts++
	return i
}

// FreeItems returns the pooled items (most recent first).
//
//go:norace
//go:noinline
func FreeItems() []any {
	var r []any
	for i := nPuts - 1; i >= 0; i-- {
		if entries[i].live {
			r = append(r, entries[i].item)
		}
	}
	return r
}

func (Sched) PoolGet(p *vs.Pool) (any, bool, bool) {
	inThread := schedx.Current() >= 0 // false: set-up code on the controller goroutine, before the threads run
	if inThread {
		schedx.Point("pool.Get")
	}
	var idx [maxPuts]int
	n := liveOf(p, &idx)
	k := 0
	if n > 0 && inThread {
		k = schedx.Choose("pool.Get answer (0..n-1 pooled item, most recent first; n = New)", n+1)
	}
	if k >= n {
		bump(&GetsNew)
		return nil, false, true
	}
	i := idx[k]
	atomic.LoadUint32(&words[i]) // acquire: pairs with the store of the Put that published this item
	bump(&GetsFromPool)
	return take(i), true, true
}

//go:norace
//go:noinline
func bump(p *int) { *p++ }

func (Sched) PoolPut(p *vs.Pool, x any) bool {
	inThread := schedx.Current() >= 0
	if inThread {
		schedx.Point("pool.Put")
	}
	i := add(p, x)
	if i >= 0 {
		atomic.StoreUint32(&words[i], 1) // release
	}
	if inThread {
		schedx.Point("after pool.Put")
	}
	return true
}

func (Sched) Lock(m *vs.Mutex) bool {
	schedx.Lock(&m.Held)
	return true
}
func (Sched) Unlock(m *vs.Mutex) bool { schedx.Unlock(&m.Held); return true }

func (Sched) Spawn(fn func()) bool { return schedx.Spawn(fn) }

func (Sched) Point(label string) bool {
	if schedx.Current() < 0 {
		return false
	}
	schedx.Point(label)
	return true
}

func (Sched) WaitZero(word *int32, label string) bool { return schedx.WaitZero(word, label) }

func init() { schedx.ForeignLive = func() int { return int(vs.Foreign.Load()) } }
