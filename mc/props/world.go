package props

import (
	"fmt"

	"verif/mc/core"
	"verif/mc/dyn"
)

// world runs a set of real views in lock-step with the views model (model.go).
// It is the system explored for C03 (scripted enumeration) and C12 (breadth-first
// search over histories).

type wop struct {
	K string `json:"k"` // alloc | slice | append | indep | asample | stamp | set
	V int    `json:"v"`
	W int    `json:"w"`
	A int    `json:"a"`
	B int    `json:"b"`
}

func (o wop) String() string {
	switch o.K {
	case "alloc":
		return fmt.Sprintf("v%d=alloc(L=%d,K=%d)", o.V, o.A, o.B)
	case "slice":
		return fmt.Sprintf("v%d.slice(%d,%d)", o.V, o.A, o.B)
	case "append":
		return fmt.Sprintf("v%d.append(v%d)", o.V, o.W)
	case "indep":
		return fmt.Sprintf("v%d.append(fresh %d frames)", o.V, o.A)
	case "asample":
		if o.A == 1 {
			return fmt.Sprintf("v%d.appendSample(0)", o.V)
		}
		return fmt.Sprintf("v%d.appendSample", o.V)
	case "stamp":
		return fmt.Sprintf("write(v%d)", o.V)
	case "set":
		return fmt.Sprintf("v%d.set(%d)", o.V, o.A)
	}
	return o.K
}

type wview struct {
	b dyn.Buf
	m mview
}

type wstore struct {
	st  *mstore
	obs dyn.Buf // a full-length view of the whole storage
}

type world struct {
	t      int
	ch     int
	views  []wview
	stores []wstore
	tok    int64
	// stats
	grew, inplace int
}

func newWorld(t, ch int) *world { return &world{t: t, ch: ch, tok: 1} }

// next returns a fresh token; tokens stay representable in every element type (int8), so
// after 120 they start again at 1 (near-unique is enough to expose a misplaced sample).
func (w *world) next() int64 {
	x := w.tok
	w.tok++
	if w.tok > 120 {
		w.tok = 1
	}
	return x
}

func (w *world) storeOf(st *mstore) *wstore {
	for i := range w.stores {
		if w.stores[i].st == st {
			return &w.stores[i]
		}
	}
	return nil
}

// overlapsWrite reports whether appending src to dst in place would write into
// src's readable window (excluded by C03/C12).
func overlapsWrite(dst, src mview) bool {
	if src.n == 0 || dst.st != src.st {
		return false
	}
	if dst.capTotal() < dst.n+src.n {
		return false // grows: the write goes to fresh storage
	}
	lo, hi := dst.off+dst.n, dst.off+dst.n+src.n
	return src.off < hi && lo < src.off+src.n
}

// enabled reports whether the model admits op in the current state.
func (w *world) enabled(o wop) bool {
	switch o.K {
	case "append":
		d, s := w.views[o.V].m, w.views[o.W].m
		return d.n%w.ch == 0 && s.n%w.ch == 0 && !overlapsWrite(d, s)
	case "indep":
		return w.views[o.V].m.n%w.ch == 0
	}
	return true
}

// apply runs op on implementation and model; check compares everything afterwards.
// A non-empty result means the implementation contradicts the model.
func (w *world) apply(o wop, check bool) (fs []F) {
	fail := func(fn, kind, format string, a ...any) {
		fs = append(fs, core.Failf(fn+"/"+kind, "%s: %s", o, fmt.Sprintf(format, a...)))
	}
	bits := dyn.Types[w.t].Bits
	switch o.K {
	case "alloc":
		b := dyn.Alloc(w.t, al(w.ch, o.A, o.B))
		st := newStore(w.ch * o.B)
		w.stores = append(w.stores, wstore{st, full(b)})
		w.views = append(w.views, wview{b, mview{st: st, off: 0, n: w.ch * o.A, ch: w.ch, bits: bits}})
	case "slice":
		v := w.views[o.V]
		m2, ok := v.m.slice(o.A, o.B)
		var nb dyn.Buf
		pn, msg := dyn.Try(func() { nb = v.b.Slice(o.A, o.B) })
		if !ok {
			if !pn {
				fail("Slice", "no-panic", "out-of-range slicing did not panic")
			}
			break
		}
		if pn {
			fail("Slice", "panic-on-valid", "panicked: %s", msg)
			return
		}
		w.views = append(w.views, wview{nb, m2})
	case "append", "indep":
		d := &w.views[o.V]
		var sv wview
		if o.K == "indep" {
			b := dyn.Alloc(w.t, al(w.ch, o.A, o.A))
			st := newStore(w.ch * o.A)
			for i := range st.cells {
				x := w.next()
				st.cells[i] = x
				b.SetSample(i, dyn.Tok(w.t, x))
			}
			w.stores = append(w.stores, wstore{st, b.Slice(0, o.A)})
			sv = wview{b, mview{st: st, off: 0, n: w.ch * o.A, ch: w.ch, bits: bits}}
			w.views = append(w.views, sv)
			d = &w.views[o.V]
		} else {
			sv = w.views[o.W]
		}
		vals := make([]int64, sv.m.n)
		for i := range vals {
			vals[i] = sv.m.get(i)
		}
		oldCap := d.m.capTotal()
		if pn, msg := dyn.Try(func() { d.b.Append(sv.b) }); pn {
			kind := "panic"
			if o.K == "append" && o.V == o.W {
				kind = "self-append-panic"
			}
			fail("Append", kind, "panicked: %s (destination Len %d Cap %d, source Len %d)", msg, d.m.n, oldCap, len(vals))
			return
		}
		if oldCap >= d.m.n+len(vals) {
			w.inplace++
			for i, x := range vals {
				d.m.set(d.m.n+i, x)
			}
			d.m.n += len(vals)
		} else {
			w.grew++
			newLen := d.m.n + len(vals)
			newCap := d.b.Cap()
			if newCap < newLen || newCap%w.ch != 0 {
				fail("Append", "capacity", "after growing, Cap %d is not a whole number of %d-channel frames >= Len %d", newCap, w.ch, newLen)
				return
			}
			if d.b.Len() != newLen {
				fail("Append", "length", "after growing, Len %d, want %d", d.b.Len(), newLen)
				return
			}
			st := newStore(newCap)
			for i := 0; i < d.m.n; i++ {
				st.cells[i] = d.m.get(i)
			}
			copy(st.cells[d.m.n:], vals)
			obs := full(d.b)
			// what the spare capacity of freshly grown storage holds is not specified: adopt it
			if obs.Len() == newCap {
				for i := newLen; i < newCap; i++ {
					st.cells[i] = obs.Sample(i).Tok()
				}
			}
			w.stores = append(w.stores, wstore{st, obs})
			d.m = mview{st: st, off: 0, n: newLen, ch: w.ch, bits: bits}
		}
	case "asample":
		v := &w.views[o.V]
		x := w.next()
		if o.A == 1 {
			x = 0 // the value zero, over whatever the cell holds (spare capacity is not always zero)
		}
		if pn, msg := dyn.Try(func() { v.b.AppendSample(dyn.Tok(w.t, x)) }); pn {
			fail("AppendSample", "panic", "panicked: %s", msg)
			return
		}
		if v.m.n < v.m.capTotal() {
			v.m.set(v.m.n, x)
			v.m.n++
		}
	case "stamp":
		v := w.views[o.V]
		sl := dyn.NewSl(w.t, v.m.n)
		for i := 0; i < v.m.n; i++ {
			x := w.next()
			sl.Set(i, dyn.Tok(w.t, x))
			v.m.set(i, x)
		}
		var ret int
		if pn, msg := dyn.Try(func() { ret = dyn.Write(sl, v.b) }); pn {
			fail("Write", "panic", "panicked: %s", msg)
			return
		}
		if ret != v.m.length() {
			fail("Write", "return", "returned %d, want %d", ret, v.m.length())
		}
	case "set":
		v := w.views[o.V]
		x := w.next()
		if pn, msg := dyn.Try(func() { v.b.SetSample(o.A, dyn.Tok(w.t, x)) }); pn {
			fail("SetSample", "panic", "panicked: %s", msg)
			return
		}
		v.m.set(o.A, x)
	default:
		panic("unknown op " + o.K)
	}
	if check && len(fs) == 0 {
		fn := map[string]string{"alloc": "Alloc", "slice": "Slice", "append": "Append", "indep": "Append", "asample": "AppendSample", "stamp": "Write", "set": "SetSample"}[o.K]
		if d := w.compare(); d != "" {
			fail(fn, "views", "%s", d)
		}
	}
	return
}

// compare checks every live view and every storage against the model.
func (w *world) compare() string {
	for i, v := range w.views {
		if d := cmpView(v.b, v.m); d != "" {
			return fmt.Sprintf("view v%d: %s", i, d)
		}
	}
	for i, s := range w.stores {
		if d := cmpStore(s.obs, s.st); d != "" {
			return fmt.Sprintf("storage #%d: %s", i, d)
		}
	}
	return ""
}

// run replays ops, checking only after those with index >= from.
func (w *world) run(ops []wop, from int) []F {
	for i, o := range ops {
		if !w.enabled(o) {
			panic(fmt.Sprintf("world: op %d (%s) not enabled in replayed history", i, o))
		}
		if fs := w.apply(o, i >= from); len(fs) > 0 {
			return fs
		}
	}
	return nil
}
