#!/usr/bin/env python3
import json, jsonschema, sys, glob
ms = json.load(open('/root/.vp/MANIFEST.schema.json')); es = json.load(open('/root/.vp/EVIDENCE.schema.json'))
m = json.load(open('/verif/MANIFEST.json')); jsonschema.validate(m, ms)
bad = 0
for c in m['checks']:
    try:
        e = json.load(open(c['evidence_file'])); jsonschema.validate(e, es)
        assert e['level'] == c['level_claimed']['category'], 'level mismatch'
        cov = e['coverage']
        print(c['property_id'], 'ok', e['tier'], 'evals=%s states=%s nt=%s exh=%s wall=%.1f' % (cov.get('evaluations'), cov.get('states'), cov.get('distinct_nontrivial'), cov.get('exhaustive'), e['wall_s']))
    except Exception as ex:
        bad += 1; print(c['property_id'], 'BAD', str(ex)[:300])
sys.exit(1 if bad else 0)
