package props

import (
	"encoding/json"
	"fmt"
	"math/big"
	"strconv"
	"strings"

	"pipelined.dev/signal"
	"verif/mc/core"
	"verif/mc/dyn"
)

// C16 — bit-depth arithmetic is exact for every depth from 1 to 64.

type c16Case struct {
	Fn    string // bounds | signed | unsigned | scale
	Depth int
	Val   int64  // signed argument
	UVal  uint64 // unsigned argument
	Low   int    // scale: low depth
	Type  string // scale: integer type
}

var scaleFns = map[string]func(h, l signal.BitDepth) *big.Int{
	"int8":   func(h, l signal.BitDepth) *big.Int { return big.NewInt(int64(signal.Scale[int8](h, l))) },
	"int16":  func(h, l signal.BitDepth) *big.Int { return big.NewInt(int64(signal.Scale[int16](h, l))) },
	"int32":  func(h, l signal.BitDepth) *big.Int { return big.NewInt(int64(signal.Scale[int32](h, l))) },
	"int64":  func(h, l signal.BitDepth) *big.Int { return big.NewInt(signal.Scale[int64](h, l)) },
	"int":    func(h, l signal.BitDepth) *big.Int { return big.NewInt(int64(signal.Scale[int](h, l))) },
	"uint8":  func(h, l signal.BitDepth) *big.Int { return new(big.Int).SetUint64(uint64(signal.Scale[uint8](h, l))) },
	"uint16": func(h, l signal.BitDepth) *big.Int { return new(big.Int).SetUint64(uint64(signal.Scale[uint16](h, l))) },
	"uint32": func(h, l signal.BitDepth) *big.Int { return new(big.Int).SetUint64(uint64(signal.Scale[uint32](h, l))) },
	"uint64": func(h, l signal.BitDepth) *big.Int { return new(big.Int).SetUint64(signal.Scale[uint64](h, l)) },
	"uint":   func(h, l signal.BitDepth) *big.Int { return new(big.Int).SetUint64(uint64(signal.Scale[uint](h, l))) },
	"uintptr": func(h, l signal.BitDepth) *big.Int {
		return new(big.Int).SetUint64(uint64(signal.Scale[uintptr](h, l)))
	},
	// named integer types
	"MyInt8":  func(h, l signal.BitDepth) *big.Int { return big.NewInt(int64(signal.Scale[dyn.MyInt8](h, l))) },
	"MyInt16": func(h, l signal.BitDepth) *big.Int { return big.NewInt(int64(signal.Scale[dyn.MyInt16](h, l))) },
	"MyInt32": func(h, l signal.BitDepth) *big.Int { return big.NewInt(int64(signal.Scale[dyn.MyInt32](h, l))) },
	"MyInt64": func(h, l signal.BitDepth) *big.Int { return big.NewInt(int64(signal.Scale[dyn.MyInt64](h, l))) },
	"MyInt":   func(h, l signal.BitDepth) *big.Int { return big.NewInt(int64(signal.Scale[dyn.MyInt](h, l))) },
	"MyUint8": func(h, l signal.BitDepth) *big.Int {
		return new(big.Int).SetUint64(uint64(signal.Scale[dyn.MyUint8](h, l)))
	},
	"MyUint16": func(h, l signal.BitDepth) *big.Int {
		return new(big.Int).SetUint64(uint64(signal.Scale[dyn.MyUint16](h, l)))
	},
	"MyUint32": func(h, l signal.BitDepth) *big.Int {
		return new(big.Int).SetUint64(uint64(signal.Scale[dyn.MyUint32](h, l)))
	},
	"MyUint64": func(h, l signal.BitDepth) *big.Int {
		return new(big.Int).SetUint64(uint64(signal.Scale[dyn.MyUint64](h, l)))
	},
	"MyUint": func(h, l signal.BitDepth) *big.Int {
		return new(big.Int).SetUint64(uint64(signal.Scale[dyn.MyUint](h, l)))
	},
	"MyUintptr": func(h, l signal.BitDepth) *big.Int {
		return new(big.Int).SetUint64(uint64(signal.Scale[dyn.MyUintptr](h, l)))
	},
}

var scaleTypes = []struct {
	name     string
	maxShift int // largest k with 2^k representable
}{
	{"int8", 6}, {"int16", 14}, {"int32", 30}, {"int64", 62}, {"int", 62},
	{"uint8", 7}, {"uint16", 15}, {"uint32", 31}, {"uint64", 63}, {"uint", 63}, {"uintptr", 63},
	{"MyInt8", 6}, {"MyInt16", 14}, {"MyInt32", 30}, {"MyInt64", 62}, {"MyInt", 62},
	{"MyUint8", 7}, {"MyUint16", 15}, {"MyUint32", 31}, {"MyUint64", 63}, {"MyUint", 63}, {"MyUintptr", 63},
}

func pow2(k int) *big.Int { return new(big.Int).Lsh(big.NewInt(1), uint(k)) }

func c16Run(cs c16Case) (fs []F) {
	b := signal.BitDepth(cs.Depth)
	fail := func(kind, format string, a ...any) {
		fs = append(fs, F{Key: "BitDepth/" + kind, Code: int64(cs.Depth), HasCode: true, Msg: fmt.Sprintf("depth %d: ", cs.Depth) + fmt.Sprintf(format, a...)})
	}
	maxS := new(big.Int).Sub(pow2(cs.Depth-1), big.NewInt(1))
	minS := new(big.Int).Neg(pow2(cs.Depth - 1))
	maxU := new(big.Int).Sub(pow2(cs.Depth), big.NewInt(1))
	switch cs.Fn {
	case "bounds":
		if g := big.NewInt(b.MaxSignedValue()); g.Cmp(maxS) != 0 {
			fail("max-signed", "MaxSignedValue = %v, want %v", g, maxS)
		}
		if g := big.NewInt(b.MinSignedValue()); g.Cmp(minS) != 0 {
			fail("min-signed", "MinSignedValue = %v, want %v", g, minS)
		}
		if g := new(big.Int).SetUint64(b.MaxUnsignedValue()); g.Cmp(maxU) != 0 {
			fail("max-unsigned", "MaxUnsignedValue = %v, want %v", g, maxU)
		}
	case "max-signed":
		if g := big.NewInt(b.MaxSignedValue()); g.Cmp(maxS) != 0 {
			fail("max-signed", "MaxSignedValue = %v, want %v", g, maxS)
		}
	case "min-signed":
		if g := big.NewInt(b.MinSignedValue()); g.Cmp(minS) != 0 {
			fail("min-signed", "MinSignedValue = %v, want %v", g, minS)
		}
	case "max-unsigned":
		if g := new(big.Int).SetUint64(b.MaxUnsignedValue()); g.Cmp(maxU) != 0 {
			fail("max-unsigned", "MaxUnsignedValue = %v, want %v", g, maxU)
		}
	case "signed1": // one call only
		want := big.NewInt(cs.Val)
		if want.Cmp(maxS) > 0 {
			want = maxS
		}
		if g := b.SignedValue(cs.Val); big.NewInt(g).Cmp(want) != 0 {
			fail("signed-clip", "SignedValue(%d) = %d, want %v", cs.Val, g, want)
		}
	case "unsigned1": // one call only
		want := new(big.Int).SetUint64(cs.UVal)
		if want.Cmp(maxU) > 0 {
			want = maxU
		}
		if g := b.UnsignedValue(cs.UVal); new(big.Int).SetUint64(g).Cmp(want) != 0 {
			fail("unsigned-clip", "UnsignedValue(%d) = %d, want %v", cs.UVal, g, want)
		}
	case "signed":
		v := big.NewInt(cs.Val)
		want := v
		if v.Cmp(minS) < 0 {
			want = minS
		} else if v.Cmp(maxS) > 0 {
			want = maxS
		}
		g := b.SignedValue(cs.Val)
		if big.NewInt(g).Cmp(want) != 0 {
			fail("signed-clip", "SignedValue(%d) = %d, want %v", cs.Val, g, want)
		}
		if g2 := b.SignedValue(g); g2 != g {
			fail("signed-idempotent", "SignedValue(SignedValue(%d)) = %d, not %d", cs.Val, g2, g)
		}
	case "unsigned":
		v := new(big.Int).SetUint64(cs.UVal)
		want := v
		if v.Cmp(maxU) > 0 {
			want = maxU
		}
		g := b.UnsignedValue(cs.UVal)
		if new(big.Int).SetUint64(g).Cmp(want) != 0 {
			fail("unsigned-clip", "UnsignedValue(%d) = %d, want %v", cs.UVal, g, want)
		}
		if g2 := b.UnsignedValue(g); g2 != g {
			fail("unsigned-idempotent", "UnsignedValue(UnsignedValue(%d)) = %d, not %d", cs.UVal, g2, g)
		}
	case "scale":
		g := scaleFns[cs.Type](signal.BitDepth(cs.Depth), signal.BitDepth(cs.Low))
		if g.Cmp(pow2(cs.Depth-cs.Low)) != 0 {
			fs = append(fs, core.Failf("Scale/"+cs.Type, "Scale[%s](%d,%d) = %v, want 2^%d", cs.Type, cs.Depth, cs.Low, g, cs.Depth-cs.Low))
		}
	}
	return
}

func unsignedAlphabet() []uint64 {
	set := map[uint64]bool{}
	add := func(c uint64) {
		for d := uint64(0); d <= 3; d++ {
			if c+d >= c {
				set[c+d] = true
			}
			if c-d <= c {
				set[c-d] = true
			}
		}
	}
	add(0)
	add(^uint64(0))
	for k := 0; k < 64; k++ {
		p := uint64(1) << uint(k)
		add(p)
		if k >= 1 && k < 63 {
			add(p + p/2)
		}
	}
	var r []uint64
	for x := range set {
		r = append(r, x)
	}
	return r
}

// c16Light checks all 64 depths sequentially on a small alphabet (used after an order prefix
// in a fresh process).
func c16Light(report func(cs c16Case, fs []F)) int64 {
	var n int64
	sAlpha := []int64{-1 << 63, -1<<63 + 1, -1 << 40, -129, -128, -2, -1, 0, 1, 127, 128, 255, 256, 1 << 40, 1<<63 - 2, 1<<63 - 1}
	uAlpha := []uint64{0, 1, 127, 128, 255, 256, 65535, 65536, 1 << 40, 1<<63 - 1, 1 << 63, 1<<63 + 1, ^uint64(0) - 1, ^uint64(0)}
	for d := 1; d <= 64; d++ {
		run := func(cs c16Case) {
			n++
			if fs := c16Run(cs); len(fs) > 0 {
				report(cs, fs)
			}
		}
		run(c16Case{Fn: "bounds", Depth: d})
		for _, v := range sAlpha {
			run(c16Case{Fn: "signed", Depth: d, Val: v})
		}
		for _, v := range uAlpha {
			run(c16Case{Fn: "unsigned", Depth: d, UVal: v})
		}
	}
	return n
}

// c16First is the case that makes exactly one library call: fn at depth d.
func c16First(fn string, d int) c16Case {
	switch fn {
	case "max-signed", "min-signed", "max-unsigned":
		return c16Case{Fn: fn, Depth: d}
	case "signed":
		return c16Case{Fn: "signed1", Depth: d, Val: 100}
	case "unsigned":
		return c16Case{Fn: "unsigned1", Depth: d, UVal: 100}
	}
	return c16Case{Fn: "scale", Depth: d, Low: max(1, d-5), Type: "uint64"}
}

// c16Touch calls every bit-depth function once at depth d (any uint8 value: also outside 1..64).
func c16Touch(d int) {
	b := signal.BitDepth(d)
	b.MaxSignedValue()
	b.MinSignedValue()
	b.MaxUnsignedValue()
	b.SignedValue(-5)
	b.UnsignedValue(5)
}

func init() {
	core.Register(&core.Prop{
		ID: "C16", Level: "exploration", Design: "§5 C16",
		Worker: func(c *core.Ctx, arg string) int {
			// "order:a,b,c": in this fresh process use depths a, b, c first, then check every depth
			res := &core.WorkerResult{CanaryOK: true}
			if strings.HasPrefix(arg, "first:") {
				// "first:<fn>:<depth>": the very first call into the library in this process is that one
				// function at that depth; its answer is checked, then every depth
				parts := strings.Split(arg, ":")
				d, _ := strconv.Atoi(parts[2])
				cs := c16First(parts[1], d)
				report := func(cs c16Case, fs []F, what string) {
					if len(res.Violations) < 5 {
						raw, _ := json.Marshal(cs)
						for _, f := range fs {
							f.Key += "/first-call"
							f.Msg = fmt.Sprintf("in a fresh process whose first library call is %s at depth %d%s: %s", parts[1], d, what, f.Msg)
							res.Violations = append(res.Violations, core.WorkerViolation{Case: raw, Failure: f})
						}
					}
				}
				res.Executions = 1
				if fs := c16Run(cs); len(fs) > 0 {
					report(cs, fs, "")
				}
				res.Executions += c16Light(func(cs c16Case, fs []F) { report(cs, fs, " (later calls)") })
				core.EmitWorkerResult(res)
				return 0
			}
			var prefix []int
			for _, p := range strings.Split(strings.TrimPrefix(arg, "order:"), ",") {
				if v, err := strconv.Atoi(p); err == nil {
					prefix = append(prefix, v)
				}
			}
			for _, d := range prefix {
				c16Touch(d)
			}
			res.Executions = c16Light(func(cs c16Case, fs []F) {
				if len(res.Violations) < 5 {
					raw, _ := json.Marshal(cs)
					for _, f := range fs {
						f.Key += "/after-order"
						f.Msg = fmt.Sprintf("in a fresh process that first used the depths %v: %s", prefix, f.Msg)
						res.Violations = append(res.Violations, core.WorkerViolation{Case: raw, Failure: f})
					}
				}
			})
			core.EmitWorkerResult(res)
			return 0
		},
		Run: func(c *core.Ctx) {
			// Scale[T](h, l) where 2^(h-l) does not fit T has no meaningful result, but it is an ordinary call:
			// made first (narrow types before wide ones), it must not influence the calls judged below
			for _, ty := range []string{"int8", "uint8", "MyInt8", "MyUint8", "int16", "uint16", "MyInt16", "MyUint16", "int32", "uint32", "MyInt32", "MyUint32"} {
				if f := scaleFns[ty]; f != nil {
					for h := 1; h <= 64; h++ {
						for l := 1; l <= h; l++ {
							dyn.Try(func() { f(signal.BitDepth(h), signal.BitDepth(l)) })
						}
					}
				}
			}
			// order of first use: fresh processes that touch a few depths first (also depths outside 1..64,
			// which are legal uint8 values) and then check every depth
			var jobs []core.WorkerJob
			addJob := func(prefix ...int) {
				var ps []string
				for _, p := range prefix {
					ps = append(ps, strconv.Itoa(p))
				}
				jobs = append(jobs, core.WorkerJob{Binary: "mc-shim", ID: "C16", Arg: "order:" + strings.Join(ps, ","), Env: []string{"VERIF_NO_EVIDENCE=1"}})
			}
			for d := 1; d <= 64; d++ {
				for _, k := range []int{64, 128, 192} {
					if d+k <= 255 {
						addJob(d + k)
					}
				}
			}
			addJob(0)
			// every function as the very first library call of a process, at every depth
			for _, fn := range []string{"max-signed", "min-signed", "max-unsigned", "signed", "unsigned", "scale"} {
				for d := 1; d <= 64; d++ {
					jobs = append(jobs, core.WorkerJob{Binary: "mc-shim", ID: "C16", Arg: fmt.Sprintf("first:%s:%d", fn, d), Env: []string{"VERIF_NO_EVIDENCE=1"}})
				}
			}
			coarse := []int{1, 8, 16, 17, 33, 48, 64}
			if !c.Quick() {
				coarse = []int{1, 2, 8, 15, 16, 17, 31, 32, 33, 47, 48, 49, 63, 64}
			}
			for _, a := range coarse {
				for _, b := range coarse {
					addJob(a, b)
					for _, d := range coarse {
						addJob(a, b, d)
					}
				}
			}
			var orderEvals int64
			for i, out := range core.RunWorkers(jobs) {
				if out.Err != nil {
					c.InternalError("order worker %s: %v", jobs[i].Arg, out.Err)
					continue
				}
				orderEvals += out.Res.Executions
				for _, v := range out.Res.Violations {
					c.Fail(v.Case, v.Failure)
				}
			}
			c.Eval(orderEvals, orderEvals)
			c.Set("fresh_process_order_prefixes", len(jobs))
			sAlpha := boundaryAlphabet(64)
			uAlpha := unsignedAlphabet()
			c.ParallelFor(64, func(i int) {
				d := i + 1
				var n, nt int64
				chk := func(cs c16Case) {
					fs := c16Run(cs)
					n++
					nt++
					if len(fs) > 0 {
						c.Fail(cs, fs...)
					}
				}
				chk(c16Case{Fn: "bounds", Depth: d})
				// order preservation along the sorted alphabet
				b := signal.BitDepth(d)
				var prev int64
				for k, v := range sAlpha {
					chk(c16Case{Fn: "signed", Depth: d, Val: v})
					g := b.SignedValue(v)
					if k > 0 && g < prev {
						c.Fail(c16Case{Fn: "signed", Depth: d, Val: v}, F{Key: "BitDepth/signed-order", Code: int64(d), HasCode: true, Msg: fmt.Sprintf("depth %d: SignedValue not monotone at %d", d, v)})
					}
					prev = g
				}
				for _, v := range uAlpha {
					chk(c16Case{Fn: "unsigned", Depth: d, UVal: v})
				}
				// values away from the boundaries: an arithmetic lattice over the whole 64-bit range
				const nl = 1 << 14
				step := (^uint64(0))/nl | 1
				for i := uint64(0); i < nl; i++ {
					u := i * step
					chk(c16Case{Fn: "unsigned", Depth: d, UVal: u})
					chk(c16Case{Fn: "signed", Depth: d, Val: int64(u + 1<<63)})
				}
				if d <= 16 {
					for v := int64(-1 << 17); v <= 1<<17; v++ {
						chk(c16Case{Fn: "signed", Depth: d, Val: v})
						if v >= 0 {
							chk(c16Case{Fn: "unsigned", Depth: d, UVal: uint64(v)})
						}
					}
				}
				for l := 1; l <= d; l++ {
					for _, st := range scaleTypes {
						if d-l <= st.maxShift {
							chk(c16Case{Fn: "scale", Depth: d, Low: l, Type: st.name})
						}
					}
				}
				c.Eval(n, nt)
			})
			c.Sample(c16Case{Fn: "signed", Depth: 64, Val: -1 << 63})
			c.Sample(c16Case{Fn: "scale", Depth: 64, Low: 1, Type: "uint64"})
			c.Sample(c16Case{Fn: "bounds", Depth: 63})
			c.Set("rule", "all 64 depths x (bounds; SignedValue over every int64 within +-3 of 0, +-2^k, +-1.5*2^k and the bounds; UnsignedValue over the unsigned analogue; a lattice of 2^14 values with an odd step across the whole 64-bit range; for depths <= 16 additionally every value in [-2^17, 2^17]) and Scale[T](h,l) for all pairs h>=l and all 11 built-in integer types plus a named type over each of them, where 2^(h-l) fits T; oracle in math/big; each (function, depth, argument) enumerated once, all non-trivial; plus the order of first use: fresh processes that first touch one depth outside 1..64 (d+64, d+128, d+192 for every d) or every pair and triple of a coarse set of depths, then check all 64 depths; and fresh processes whose very first library call is one of MaxSignedValue / MinSignedValue / MaxUnsignedValue / SignedValue / UnsignedValue / Scale at each depth 1..64 (answer checked, then all depths)")
			c.Assume("64-bit arguments outside the alphabet are not covered")
		},
		RunCase: func(c *core.Ctx, raw json.RawMessage) []F { return c16Run(decode[c16Case](raw)) },
	})
}
