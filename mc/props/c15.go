//go:build verif

package props

import (
	"encoding/json"
	"fmt"

	"verif/mc/core"
	"verif/mc/dyn"
	"verif/mc/poolctl"
)

// C15 — shape mismatches are rejected before anything is modified.

type c15Case struct {
	Fn     string // conv | append | rstriped | wstriped | put
	S, D   string
	C1, C2 int // channel counts of the two buffers; striped: C1 = channels, C2 = number of slices; put: pool (C1,K1) vs buffer (C2,K2)
	K1, K2 int
	Nil    bool // striped: outer slice nil (count 0)
	Frames int  // frames of the operand buffers (0: 3 with length 2)
	// Surplus: striped calls with more slices than channels: 1 = the surplus slices are empty, 2 = nil
	// (0: every slice has three elements)
	Surplus int `json:"surplus,omitempty"`
	// EqLen: conv/append with buffers of C1 x C2 and C2 x C1 samples: different channel counts, the same
	// total length (and the same total capacity)
	EqLen bool `json:"eq_len,omitempty"`
	// Ragged: striped calls whose slices have lengths 1, 5, 2, 4, ... (shorter and longer than the buffer)
	Ragged bool `json:"ragged,omitempty"`
	// Part > 0 (striped): the buffer is Alloc(C1, 0, 3) with Part samples appended one by one (fewer than
	// one frame when Part < C1)
	Part int `json:"part,omitempty"`
	// PutVar (put): 1 = the buffer offered is the window Slice(1, K1) of a buffer of the pool's own shape
	// (its capacity is one frame short); 2 = a buffer of the pool's own shape grown by Append beyond it
	PutVar int `json:"put_var,omitempty"`
	// RecvPart (conv/append): the receiver / destination ends in a partly filled frame (one more sample)
	RecvPart bool `json:"recv_part,omitempty"`
}

// snapshot of a buffer: shape + every sample over its capacity
type snap struct {
	h header
	v []dyn.Val
}

func takeSnap(b dyn.Buf) snap {
	s := snap{h: hdr(b)}
	fb := full(b)
	for i := 0; i < fb.Len(); i++ {
		s.v = append(s.v, fb.Sample(i))
	}
	return s
}

func (s snap) diff(b dyn.Buf) string {
	if h := hdr(b); h != s.h {
		return fmt.Sprintf("shape changed from %+v to %+v", s.h, h)
	}
	fb := full(b)
	for i := 0; i < fb.Len(); i++ {
		if g := fb.Sample(i); !sameBits(g, s.v[i]) {
			return fmt.Sprintf("sample %d changed from %v to %v", i, s.v[i], g)
		}
	}
	return ""
}

func c15Run(cs c15Case) []F {
	return core.Guard("mismatch", func() []F { return c15RunRaw(cs) })
}

func c15RunRaw(cs c15Case) (fs []F) {
	s, d := typeByName(cs.S), typeByName(cs.D)
	var key string
	fail := func(kind, format string, a ...any) {
		fs = append(fs, core.Failf(key+"/"+kind, "%+v: %s", cs, fmt.Sprintf(format, a...)))
	}
	mk := func(t, C, L, K int, first int64) dyn.Buf {
		if cs.Frames > 0 && K == 3 {
			L, K = cs.Frames-1, cs.Frames
		}
		b := dyn.Alloc(t, al(C, L, K))
		fb := full(b)
		for i := 0; i < fb.Len(); i++ {
			fb.SetSample(i, dyn.Tok(t, tk(first+int64(i))))
		}
		return b
	}
	switch cs.Fn {
	case "conv", "append":
		a := mk(s, cs.C1, 2, 3, 1)
		b := mk(d, cs.C2, 2, 3, 40)
		if cs.EqLen {
			a, b = mk(s, cs.C1, cs.C2, cs.C2+1, 1), mk(d, cs.C2, cs.C1, cs.C1+1, 40)
		}
		if cs.RecvPart {
			b.AppendSample(dyn.Tok(d, 77))
		}
		sa, sb := takeSnap(a), takeSnap(b)
		var p bool
		if cs.Fn == "conv" {
			key = dyn.ConvName(s, d)
			p, _ = dyn.Try(func() { dyn.Conv(a, b) })
		} else {
			key = "Append"
			p, _ = dyn.Try(func() { b.Append(a) })
		}
		if !p {
			fail("no-panic", "buffers with %d and %d channels: no panic", cs.C1, cs.C2)
		}
		if df := sa.diff(a); df != "" {
			fail("modified", "source/argument buffer: %s", df)
		}
		if df := sb.diff(b); df != "" {
			fail("modified", "destination/receiver buffer: %s", df)
		}
	case "append0":
		// the receiver is the zero value of the buffer type (no channels), the argument has C1 channels
		key = "Append"
		a := mk(s, cs.C1, 2, 3, 1)
		b := dyn.ZeroBuf(s)
		sa, hb := takeSnap(a), hdr(b)
		if p, _ := dyn.Try(func() { b.Append(a) }); !p {
			fail("no-panic", "zero-value buffer (0 channels) and a buffer with %d channels: no panic", cs.C1)
		}
		if df := sa.diff(a); df != "" {
			fail("modified", "argument buffer: %s", df)
		}
		if h := hdr(b); h != hb {
			fail("modified", "zero-value receiver: shape changed from %+v to %+v", hb, h)
		}
	case "puthuge":
		// a very large foreign buffer (K2 samples, one channel) offered to a small pool
		key = "PoolAllocator.Put"
		ctl := poolctl.NewSeq(func(n int) int { return 0 })
		defer ctl.Bind()()
		pool := dyn.NewPool(s, al(cs.C1, 0, cs.K1))
		g0 := pool.Get()
		pool.Put(g0)
		free0 := len(ctl.AllFree())
		bad := dyn.Alloc(s, al(1, cs.K2, cs.K2))
		const stride = 40961
		for i := 0; i < cs.K2; i += stride {
			bad.SetSample(i, dyn.Tok(s, tk(int64(i/stride+1))))
		}
		bad.SetSample(cs.K2-1, dyn.Tok(s, 7))
		hb := hdr(bad)
		if p, _ := dyn.Try(func() { pool.Put(bad) }); !p {
			fail("no-panic", "pool of total capacity %d accepted a buffer of total capacity %d", cs.C1*cs.K1, cs.K2)
		}
		if h := hdr(bad); h != hb {
			fail("modified", "rejected buffer: shape changed from %+v to %+v", hb, h)
		} else {
			for i := 0; i < cs.K2; i += stride {
				if g := bad.Sample(i).Tok(); g != tk(int64(i/stride+1)) && i != cs.K2-1 {
					fail("modified", "rejected buffer: sample %d changed to %d", i, g)
					break
				}
			}
			if g := bad.Sample(cs.K2 - 1).Tok(); g != 7 {
				fail("modified", "rejected buffer: last sample changed to %d", g)
			}
		}
		if n := len(ctl.AllFree()); n != free0 {
			fail("modified", "the pool holds %d items after the rejected Put, %d before", n, free0)
		}
		if g1 := pool.Get(); g1.Ptr() == bad.Ptr() {
			fail("modified", "a following Get returned the rejected buffer")
		}
	case "rstriped", "wstriped":
		var buf dyn.Buf
		st := s // slices' element type
		if cs.Fn == "rstriped" {
			key = "ReadStriped"
			buf = mk(s, cs.C1, 2, 3, 1)
			st = d
		} else {
			key = "WriteStriped"
			buf = mk(d, cs.C1, 2, 3, 1)
		}
		if cs.Part > 0 {
			bt := d
			if cs.Fn == "rstriped" {
				bt = s
			}
			buf = dyn.Alloc(bt, al(cs.C1, 0, 3))
			for k := 0; k < cs.Part; k++ {
				buf.AppendSample(dyn.Tok(bt, tk(int64(k+1))))
			}
		}
		sn := takeSnap(buf)
		sls := make([]dyn.Sl, cs.C2)
		dyn.TakeCallerDamage()
		for i := range sls {
			n := 3
			if cs.Ragged {
				n = []int{1, 5, 2, 4, 0, 3}[i%6]
			}
			sls[i] = dyn.NewSl(st, n)
			for k := 0; k < n; k++ {
				sls[i].Set(k, dyn.Tok(st, tk(int64(60+i*3+k))))
			}
			if i >= cs.C1 && cs.Surplus == 1 {
				sls[i] = dyn.NewSl(st, 0)
			} else if i >= cs.C1 && cs.Surplus == 2 {
				sls[i] = dyn.NilSl(st)
			}
		}
		var p bool
		if cs.Fn == "rstriped" {
			p, _ = dyn.Try(func() { dyn.ReadStriped(buf, st, sls, cs.Nil) })
		} else {
			p, _ = dyn.Try(func() { dyn.WriteStriped(st, sls, cs.Nil, buf) })
		}
		if !p {
			fail("no-panic", "%d slices for %d channels: no panic", cs.C2, cs.C1)
		}
		if df := sn.diff(buf); df != "" {
			fail("modified", "buffer: %s", df)
		}
		if d := dyn.TakeCallerDamage(); d != "" {
			fail("modified", "caller's slices: %s", d)
		}
		for i := range sls {
			for k := 0; k < sls[i].Len(); k++ {
				if g := sls[i].Get(k); g.Tok() != tk(int64(60+i*3+k)) {
					fail("modified", "caller's slice %d element %d changed to %v", i, k, g)
				}
			}
		}
	case "put":
		key = "PoolAllocator.Put"
		ctl := poolctl.NewSeq(func(n int) int { return 0 }) // oldest pooled item first, New when empty
		defer ctl.Bind()()
		pool := dyn.NewPool(s, al(cs.C1, 0, cs.K1))
		// put one legitimate buffer first, so that the pool is not empty
		g0 := pool.Get()
		pool.Put(g0)
		free0 := ctl.AllFree()
		bad := mk(s, cs.C2, cs.K2, cs.K2, 1)
		switch cs.PutVar {
		case 1:
			bad = mk(s, cs.C1, cs.K1, cs.K1, 1).Slice(1, cs.K1)
		case 2:
			bad = mk(s, cs.C1, cs.K1, cs.K1, 1)
			bad.Append(mk(s, cs.C1, 1, 1, 9))
		}
		sn := takeSnap(bad)
		p, _ := dyn.Try(func() { pool.Put(bad) })
		if !p {
			fail("no-panic", "pool of total capacity %d accepted a buffer of total capacity %d", cs.C1*cs.K1, cs.C2*cs.K2)
		}
		if df := sn.diff(bad); df != "" {
			fail("modified", "rejected buffer: %s", df)
		}
		free1 := ctl.AllFree()
		if len(free1) != len(free0) {
			fail("modified", "the pool holds %d items after the rejected Put, %d before", len(free1), len(free0))
		}
		for _, x := range free1 {
			if fmt.Sprintf("%p", x) == fmt.Sprintf("%p", bad.Ptr()) {
				fail("modified", "the rejected buffer is in the pool")
			}
		}
		g1 := pool.Get()
		if g1.Ptr() == bad.Ptr() {
			fail("modified", "a following Get returned the rejected buffer")
		}
		want := header{cs.C1, dyn.Types[s].Bits, 0, cs.C1 * cs.K1, 0, cs.K1}
		if h := hdr(g1); h != want {
			fail("modified", "a following Get returned shape %+v, want %+v", h, want)
		}
	}
	return
}

func init() {
	core.Register(&core.Prop{
		ID: "C15", Level: "exploration", Design: "§5 C15",
		Run: func(c *core.Ctx) {
			var cases []c15Case
			for s := 0; s < dyn.NB; s++ {
				for d := 0; d < dyn.NB; d++ {
					// all 169 instantiations at every ordered pair of different channel counts 1..4
					for c1 := 1; c1 <= 4; c1++ {
						for c2 := 1; c2 <= 4; c2++ {
							if c1 != c2 {
								cases = append(cases, c15Case{Fn: "conv", S: tn(s), D: tn(d), C1: c1, C2: c2})
							}
						}
					}
					// the receiver / destination ends in a partly filled frame
					for _, cc := range [][2]int{{1, 2}, {2, 3}, {3, 2}, {4, 3}} {
						cases = append(cases, c15Case{Fn: "conv", S: tn(s), D: tn(d), C1: cc[0], C2: cc[1], RecvPart: true})
						if s == d {
							cases = append(cases, c15Case{Fn: "append", S: tn(s), D: tn(d), C1: cc[0], C2: cc[1], RecvPart: true})
						}
					}
					// different channel counts, equal total lengths and capacities
					for _, cc := range [][2]int{{2, 3}, {3, 2}, {1, 4}, {4, 1}, {2, 4}} {
						cases = append(cases, c15Case{Fn: "conv", S: tn(s), D: tn(d), C1: cc[0], C2: cc[1], EqLen: true})
						if s == d {
							cases = append(cases, c15Case{Fn: "append", S: tn(s), D: tn(d), C1: cc[0], C2: cc[1], EqLen: true})
						}
					}
					// striped I/O: slice counts 0..5 (and a nil outer slice) against 1..4 channels
					for ch := 1; ch <= 4; ch++ {
						for n := 0; n <= 5; n++ {
							if n != ch {
								cases = append(cases, c15Case{Fn: "rstriped", S: tn(s), D: tn(d), C1: ch, C2: n})
								cases = append(cases, c15Case{Fn: "wstriped", S: tn(s), D: tn(d), C1: ch, C2: n})
								if n > 0 && n < ch && (s == d || (s+d)%4 == 0) { // as many slices as the buffer holds samples, less than one frame
									cases = append(cases, c15Case{Fn: "rstriped", S: tn(s), D: tn(d), C1: ch, C2: n, Part: n}, c15Case{Fn: "wstriped", S: tn(s), D: tn(d), C1: ch, C2: n, Part: n})
								}
								if n > 0 {
									cases = append(cases, c15Case{Fn: "rstriped", S: tn(s), D: tn(d), C1: ch, C2: n, Ragged: true}, c15Case{Fn: "wstriped", S: tn(s), D: tn(d), C1: ch, C2: n, Ragged: true})
								}
							}
						}
						cases = append(cases, c15Case{Fn: "rstriped", S: tn(s), D: tn(d), C1: ch, Nil: true})
						cases = append(cases, c15Case{Fn: "wstriped", S: tn(s), D: tn(d), C1: ch, Nil: true})
						if s == d || (s+d)%5 == 0 { // more slices than channels, the surplus ones empty / nil
							for _, sp := range []int{1, 2} {
								cases = append(cases, c15Case{Fn: "rstriped", S: tn(s), D: tn(d), C1: ch, C2: ch + 1, Surplus: sp}, c15Case{Fn: "wstriped", S: tn(s), D: tn(d), C1: ch, C2: ch + 1, Surplus: sp}, c15Case{Fn: "wstriped", S: tn(s), D: tn(d), C1: ch, C2: ch + 2, Surplus: sp})
							}
						}
					}
				}
				for c1 := 1; c1 <= 4; c1++ {
					for c2 := 1; c2 <= 4; c2++ {
						if c1 != c2 {
							cases = append(cases, c15Case{Fn: "append", S: tn(s), D: tn(s), C1: c1, C2: c2})
						}
					}
				}
				for c1 := 1; c1 <= 3; c1++ {
					for k1 := 2; k1 <= 4; k1++ { // windows and grown versions of buffers of the pool's own shape
						cases = append(cases, c15Case{Fn: "put", S: tn(s), D: tn(s), C1: c1, K1: k1, C2: c1, K2: k1 - 1, PutVar: 1}, c15Case{Fn: "put", S: tn(s), D: tn(s), C1: c1, K1: k1, C2: c1, K2: k1 + 1, PutVar: 2})
					}
				}
				for c1 := 1; c1 <= 3; c1++ {
					for k1 := 0; k1 <= 3; k1++ {
						for c2 := 1; c2 <= 4; c2++ {
							for k2 := 0; k2 <= 4; k2++ {
								if c1*k1 != c2*k2 {
									cases = append(cases, c15Case{Fn: "put", S: tn(s), D: tn(s), C1: c1, K1: k1, C2: c2, K2: k2})
								}
							}
						}
					}
				}
			}
			// many channels and long buffers (fast paths that come before the check)
			for s := 0; s < dyn.NB; s++ {
				for d := 0; d < dyn.NB; d++ {
					for _, cc := range [][2]int{{9, 10}, {10, 9}, {64, 65}, {65, 64}, {1, 100}, {2, 1}} {
						fr := 0
						if cc[0]+cc[1] < 20 {
							fr = 1100
						}
						cases = append(cases, c15Case{Fn: "conv", S: tn(s), D: tn(d), C1: cc[0], C2: cc[1], Frames: fr})
						if s == d {
							cases = append(cases, c15Case{Fn: "append", S: tn(s), D: tn(s), C1: cc[0], C2: cc[1], Frames: fr})
						}
					}
					for _, cn := range [][2]int{{9, 8}, {9, 10}, {65, 64}, {65, 66}, {2, 1}} {
						fr := 0
						if cn[0] < 5 {
							fr = 1100
						}
						cases = append(cases, c15Case{Fn: "rstriped", S: tn(s), D: tn(d), C1: cn[0], C2: cn[1], Frames: fr})
						cases = append(cases, c15Case{Fn: "wstriped", S: tn(s), D: tn(d), C1: cn[0], C2: cn[1], Frames: fr})
					}
				}
				for _, pk := range [][4]int{{2, 512, 2, 513}, {2, 512, 1, 1023}, {9, 100, 10, 100}, {1, 20000, 1, 19999}, {65, 2, 64, 2}} {
					cases = append(cases, c15Case{Fn: "put", S: tn(s), D: tn(s), C1: pk[0], K1: pk[1], C2: pk[2], K2: pk[3]})
				}
			}
			// operands of 70000 frames (work-splitting paths that come before the check): one instantiation of
			// each conversion function and every same-type one, and Append
			{
				seen := map[string]bool{}
				for s := 0; s < dyn.NB; s++ {
					for d := 0; d < dyn.NB; d++ {
						if fn := dyn.ConvName(s, d); s == d || !seen[fn] {
							if s != d {
								seen[fn] = true
							}
							for _, cc := range [][2]int{{1, 2}, {2, 1}, {2, 3}} {
								cases = append(cases, c15Case{Fn: "conv", S: tn(s), D: tn(d), C1: cc[0], C2: cc[1], Frames: 70000})
							}
						}
					}
				}
				for _, t := range []int{dyn.Int8, dyn.Float64} {
					cases = append(cases, c15Case{Fn: "append", S: tn(t), D: tn(t), C1: 1, C2: 2, Frames: 70000}, c15Case{Fn: "append", S: tn(t), D: tn(t), C1: 2, C2: 1, Frames: 70000})
				}
			}
			// the zero value of the buffer type as receiver of Append
			for s := 0; s < dyn.NB; s++ {
				for c1 := 1; c1 <= 4; c1++ {
					cases = append(cases, c15Case{Fn: "append0", S: tn(s), D: tn(s), C1: c1})
				}
			}
			// very large foreign buffers offered to small pools (size-dependent shortcuts in front of the check)
			for _, k2 := range []int{1<<20 + 1, 1<<24 + 1, 1<<26 + 1, 1<<27 + 5} {
				cases = append(cases, c15Case{Fn: "puthuge", S: "int8", D: "int8", C1: 1, K1: 16, K2: k2})
			}
			cases = append(cases, c15Case{Fn: "puthuge", S: "float64", D: "float64", C1: 2, K1: 8, K2: 1<<23 + 1}, c15Case{Fn: "puthuge", S: "int32", D: "int32", C1: 2, K1: 8, K2: 1<<24 + 3})
			c.ParallelFor(len(cases), func(i int) { c.Check(cases[i], true, c15Run(cases[i])) })
			c.Sample(cases[0])
			c.Sample(cases[len(cases)-1])
			c.Sample(cases[len(cases)/2])
			c.Set("rule", "the 13 guarded entry points: all 169 conversion instantiations x every ordered pair of different channel counts in 1..4; Append x 13 types x the same pairs; ReadStriped/WriteStriped x 169 pairs x channels 1..4 x slice counts 0..5 (and a nil outer slice; surplus slices also empty or nil) different from the channel count; PoolAllocator.Put x 13 types x pools (C<=3,K<=3) x buffers (C<=4,K<=4) of a different total capacity (incl. 0); operands non-empty, filled with recognisable tokens; plus channel-count pairs (9,10), (64,65), (1,100) and 1100-frame operands for all instantiations, 70000-frame operands for one instantiation of each conversion function, the same-type ones and Append and pools up to 20000 samples; the zero value of the buffer type as receiver of Append; foreign buffers of 2^20+1 .. 2^27+5 samples (up to 128 MiB) offered to 16-sample pools; oracle: the call panics and both buffers (shape + every sample over the capacity), the caller's slices and the pool's free list (seen through the sync shim) are identical to the snapshot taken before, and a following Get is fresh; every case distinct and non-trivial")
			c.Assume("the pool's contents are observed through the sync.Pool shim injected by overlay")
		},
		RunCase: func(c *core.Ctx, raw json.RawMessage) []F { return c15Run(decode[c15Case](raw)) },
	})
}
