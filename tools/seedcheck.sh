#!/bin/bash
# tools/seedcheck.sh <seed-dir> <property-id> [extra check ids...]
# Confirms a seeded property-breaking change (patch.diff + demo_test.go) in a scratch worktree of /repo:
#   demo passes on the unchanged tree, existing suite passes with the change, demo fails with the change;
# then runs the property's quick check (and any extra ones) against that worktree (VERIF_REPO) with its own
# build directory, so /repo itself is never modified and several seeds can be checked at once.
# VERIF_HOME=<dir> runs the checks of a copy of /verif (e.g. a clone of the last commit) instead of /verif itself,
# so that /verif can be edited meanwhile.
# With APPLY_TO_REPO=1 the patch is instead applied to /repo (git apply), checked, and undone (git checkout -- .).
set -u
D=$(cd "$1" && pwd); ID=$2; shift 2
export GOFLAGS=-mod=mod GOPROXY=off GOSUMDB=off GOTOOLCHAIN=local
# Builds against scratch worktrees fill the Go build cache quickly (every worktree path gives new cache
# entries for the whole harness: a few hundred MB each).  They get a cache of their own, emptied when it
# grows beyond 12 GB (flock: several of these scripts may run at once).
export GOCACHE=/tmp/verif-gocache
mkdir -p $GOCACHE
( flock 9; sz=$(du -s --block-size=1G $GOCACHE 2>/dev/null | cut -f1); if [ "${sz:-0}" -gt 12 ]; then rm -rf $GOCACHE/*; fi ) 9>/tmp/verif-gocache.lock
WT=/tmp/sc-$$
flock /tmp/seedcheck.lock git -C /repo worktree add --detach "$WT" HEAD -q || exit 2
cleanup() { flock /tmp/seedcheck.lock git -C /repo worktree remove --force "$WT" 2>/dev/null; rm -rf "$WT.build" /tmp/sc-$$.*; [ "${APPLY_TO_REPO:-}" = 1 ] && git -C /repo checkout -q -- . ; }
trap cleanup EXIT
RACE=""; grep -qi -- "-race" "$D/README.md" 2>/dev/null && RACE="-race"; { [ -n "${NORACE:-}" ] || [ -f "$D/NORACE" ]; } && RACE=""
cp "$D/demo_test.go" "$WT/zz_demo_test.go"
(cd "$WT" && CGO_ENABLED=1 go test $RACE -vet=off -count=1 -run 'TestDemo' . >/tmp/sc-$$.1 2>&1); A=$?
rm "$WT/zz_demo_test.go"
git -C "$WT" apply "$D/patch.diff" || { echo "RESULT patch does not apply"; exit 2; }
(cd "$WT" && go test -vet=off -count=1 . >/tmp/sc-$$.2 2>&1); B=$?
cp "$D/demo_test.go" "$WT/zz_demo_test.go"
(cd "$WT" && CGO_ENABLED=1 go test $RACE -vet=off -count=1 -run 'TestDemo' . >/tmp/sc-$$.3 2>&1); C=$?
rm "$WT/zz_demo_test.go"
echo "demo_on_unchanged_tree_exit=$A (want 0)  suite_with_change_exit=$B (want 0)  demo_with_change_exit=$C (want !=0)  race_flag='$RACE'"
[ $A -ne 0 ] && tail -5 /tmp/sc-$$.1
[ $B -ne 0 ] && tail -8 /tmp/sc-$$.2
[ $C -eq 0 ] && tail -5 /tmp/sc-$$.3
if [ $A -ne 0 ] || [ $B -ne 0 ] || [ $C -eq 0 ]; then echo "RESULT seed NOT confirmed"; exit 3; fi
echo "seed confirmed"
if [ "${APPLY_TO_REPO:-}" = 1 ]; then
  git -C /repo apply "$D/patch.diff" || exit 2
  RUN="env VERIF_NO_EVIDENCE=1"
else
  RUN="env VERIF_NO_EVIDENCE=1 VERIF_REPO=$WT VERIF_BUILD=$WT.build"
fi
for id in $ID "$@"; do
  out=$(cd ${VERIF_HOME:-/verif} && $RUN ./check $id --tier ${TIER:-quick} 2>/dev/null); rc=$?
  echo "CHECK $id exit=$rc :: $(echo "$out" | grep -E 'VIOLATION|INTERNAL' | head -${NLINES:-2} | cut -c1-${WIDTH:-300})"
done
