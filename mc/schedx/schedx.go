// Package schedx is a stateless, deviation-bounded schedule explorer (CHESS style) over
// real goroutines.  Exactly one harness thread runs at a time; control is handed over
// through a baton that the Go race detector cannot see (plain words touched only inside
// //go:norace functions, waiters spinning on runtime.Gosched with GOMAXPROCS=1), so that
// in a -race build the detector is a happens-before monitor of each explored schedule:
// the scheduler adds no synchronisation of its own between the threads.
package schedx

import (
	"fmt"
	"os"
	"runtime"
	"sync"
	"time"
)

// MaxThreads bounds the harness threads plus the goroutines the code under test starts
// itself (Spawn).
const MaxThreads = 24

// NoGo (environment VERIF_NOGO) turns Spawn off: goroutines started by the code under test
// then run outside the explorer, as ordinary goroutines.
var NoGo = os.Getenv("VERIF_NOGO") != ""

// StallAfter is how long the controller waits for the running thread to reach its next
// point before it concludes that the thread blocks in a primitive the explorer does not
// control (a channel operation between goroutines of the code under test, say).  That is
// not a verdict about the code: the process exits with StallExit and the caller repeats the
// run with VERIF_NOGO=1.
var StallAfter = 10 * time.Second

const StallExit = 97

// ForeignLive, when set, tells how many goroutines started by the code under test are
// running outside the explorer (the sync shim counts them).
var ForeignLive func() int

// thread status
const (
	stNone    = iota
	stAtPoint // parked at a scheduling point
	stChoice  // parked, asking for an environment answer
	stBlocked // parked, waiting for a lock
	stRunning
	stDone
)

// shared holds every word the threads and the controller both touch.  It is read and
// written only inside //go:norace functions.
type shared struct {
	turn    int // -1: controller; i: thread i
	status  [MaxThreads]int
	label   [MaxThreads]string
	nopts   [MaxThreads]int
	answer  [MaxThreads]int
	blocked [MaxThreads]*int32
	passed  [MaxThreads]int // points passed
	abort   bool
	current int
	gs      [MaxThreads]uintptr // goroutine identity of every harness thread
	n       int                 // threads so far (harness threads, then spawned ones)
}

var sh shared

type abortT struct{}

//go:norace
//go:noinline
func getTurn() int { return sh.turn }

//go:norace
//go:noinline
func setTurn(t int) { sh.turn = t }

//go:norace
//go:noinline
func park(id, status int, label string, n int, lk *int32) {
	sh.status[id] = status
	sh.label[id] = label
	sh.nopts[id] = n
	sh.blocked[id] = lk
	sh.turn = -1
}

//go:norace
//go:noinline
func resumeInfo(id int) (abort bool, answer int) {
	sh.status[id] = stRunning
	sh.passed[id]++
	return sh.abort, sh.answer[id]
}

//go:norace
//go:noinline
func waitTurn(id int) {
	for sh.turn != id {
		runtime.Gosched()
	}
}

//go:norace
//go:noinline
func finish(id int) {
	sh.status[id] = stDone
	sh.turn = -1
}

//go:norace
//go:noinline
func snapshot() shared { return sh }

//go:norace
//go:noinline
func give(id, answer int) {
	sh.answer[id] = answer
	sh.current = id
	sh.turn = id
}

//go:norace
//go:noinline
func reset(n int) {
	sh = shared{turn: -1, current: -1, n: n}
}

// allocThread reserves the id of a spawned thread, parked at its initial point.
//
//go:norace
//go:noinline
func allocThread() int {
	if sh.n >= MaxThreads || sh.abort {
		return -1
	}
	id := sh.n
	sh.status[id] = stAtPoint
	sh.label[id] = "start (spawned)"
	sh.n++
	return id
}

//go:norace
//go:noinline
func nThreads() int { return sh.n }

// runState is what the threads of one execution share with the controller.
type runState struct {
	wg     sync.WaitGroup
	panics [MaxThreads]string
}

var rs *runState

//go:norace
//go:noinline
func curRun() *runState { return rs }

//go:norace
//go:noinline
func setRun(r *runState) { rs = r }

func startThread(r *runState, i int, body func()) {
	r.wg.Add(1)
	go func() {
		defer r.wg.Done()
		defer finish(i)
		defer func() {
			if x := recover(); x != nil {
				if _, ok := x.(abortT); !ok {
					r.panics[i] = fmt.Sprint(x)
				}
			}
		}()
		// initial point: wait to be scheduled for the first time
		registerG(i)
		waitTurn(i)
		if ab, _ := resumeInfo(i); ab {
			panic(abortT{})
		}
		body()
	}()
}

// Spawn starts fn as a further thread of the running execution (a go statement of the code
// under test, rewritten by the overlay).  The go statement itself is a scheduling point.
// It returns false when the caller is not an explored thread (or the thread table is
// full): the caller then starts an ordinary goroutine.
func Spawn(fn func()) bool {
	if NoGo || Current() < 0 {
		return false
	}
	r := curRun()
	if r == nil {
		return false
	}
	id := allocThread()
	if id < 0 {
		return false
	}
	startThread(r, id, fn)
	Point("go")
	return true
}

// WaitZero blocks (in the scheduler's sense) until *word is zero: the wait of a WaitGroup.
// It returns false when the caller is not an explored thread.
func WaitZero(word *int32, label string) bool {
	id := Current()
	if id < 0 {
		return false
	}
	for {
		Point(label)
		if lockWord(word) == 0 {
			return true
		}
		park(id, stBlocked, "blocked", 0, word)
		waitTurn(id)
		if ab, _ := resumeInfo(id); ab {
			panic(abortT{})
		}
	}
}

// waitBaton spins until the running thread has parked.
func waitBaton() {
	var start time.Time
	for spins := 1; getTurn() != -1; spins++ {
		runtime.Gosched()
		if spins&0xffff == 0 {
			if start.IsZero() {
				start = time.Now()
			} else if time.Since(start) > StallAfter {
				fmt.Fprintf(os.Stderr, "VERIF-STALL: the running thread did not reach a scheduling point within %v: it blocks in a primitive the explorer does not control\n", StallAfter)
				os.Exit(StallExit)
			}
		}
	}
}

//go:norace
//go:noinline
func setAbort() { sh.abort = true }

//go:norace
//go:noinline
func lockWord(p *int32) int32 { return *p }

//go:norace
//go:noinline
func setLockWord(p *int32, v int32) { *p = v }

// Current returns the id of the harness thread that is calling, or -1 when the caller is
// not the thread that holds the baton: set-up code on the controller goroutine, or a
// goroutine the harness does not know (a finalizer, a goroutine started by the library).
//
//go:norace
//go:noinline
func Current() int {
	c := sh.current
	if c >= 0 && sh.gs[c] != 0 && sh.gs[c] != G() {
		return -1
	}
	return c
}

//go:norace
//go:noinline
func registerG(id int) { sh.gs[id] = G() }

// Point is a scheduling point: the calling thread yields to the controller, which decides
// who runs next.
func Point(label string) {
	id := Current()
	if id < 0 {
		return // not a harness thread: nothing to schedule
	}
	park(id, stAtPoint, label, 0, nil)
	waitTurn(id)
	if ab, _ := resumeInfo(id); ab {
		panic(abortT{})
	}
}

// Choose asks the controller for an environment answer in [0,n); no thread switch happens.
func Choose(label string, n int) int {
	id := Current()
	if id < 0 {
		return 0
	}
	park(id, stChoice, label, n, nil)
	waitTurn(id)
	ab, a := resumeInfo(id)
	if ab {
		panic(abortT{})
	}
	return a
}

// Lock acquires the controlled lock word (0 free, 1 held); a thread that finds it held
// is disabled until it is released.
func Lock(word *int32) {
	id := Current()
	if id < 0 {
		// set-up code on the controller goroutine or a goroutine the harness does not know: it cannot
		// be scheduled, only wait a bounded while (nobody can release the lock during set-up)
		for spins := 0; !TryAcquire(word); spins++ {
			if spins > 2000000 {
				panic("verif: a goroutine outside the explored threads waits for a lock that is not released (deadlock)")
			}
			runtime.Gosched()
		}
		return
	}
	for {
		Point("lock")
		if lockWord(word) == 0 {
			setLockWord(word, 1)
			return
		}
		park(id, stBlocked, "blocked", 0, word)
		waitTurn(id)
		if ab, _ := resumeInfo(id); ab {
			panic(abortT{})
		}
	}
}

func Unlock(word *int32) { setLockWord(word, 0) }

// TryAcquire takes the lock word if it is free (for set-up code that runs on the
// controller goroutine, where nothing can be scheduled).
func TryAcquire(word *int32) bool {
	if lockWord(word) != 0 {
		return false
	}
	setLockWord(word, 1)
	return true
}

// Harness is one closed system: a fixed set of threads over shared state.
type Harness interface {
	Threads() int
	// Init builds fresh shared state for one execution (controller goroutine, before the
	// threads start).
	Init()
	// Run is the body of thread id; it calls Point/Choose (directly or through the sync shim).
	Run(id int)
	// Finish judges the completed execution (controller goroutine, after all threads
	// have been joined) and returns the failures.
	Finish() []string
	// Key returns a hash of everything the future of the execution can depend on besides
	// the number of points each thread has passed; ok=false disables state pruning.
	Key() (key uint64, ok bool)
}

// PointRec is one recorded choice point.
type PointRec struct {
	Sched      bool // scheduling choice (else environment answer)
	Thread     int  // the thread that was running / asking
	Label      string
	Options    []int // scheduling: thread ids in canonical order; env: 0..n-1
	CurEnabled bool
	Chosen     int // index into Options
}

// Execution is the record of one run.
type Execution struct {
	Points    []PointRec
	Choices   []int
	Failures  []string
	Panics    []string
	Deadlock  bool
	Truncated bool // stopped at an already visited state
	Horizon   bool
	Threads   int // harness threads plus threads spawned by the code under test
}

// Explorer configuration and statistics.
type Explorer struct {
	H       Harness
	Bound   int  // preemption bound; < 0: unbounded
	EnvCost int  // cost of a non-default environment answer
	Prune   bool // state-key pruning (sound only with Bound < 0)
	Horizon int  // max points per execution
	// OnExec is called after every completed execution.
	OnExec func(x *Execution)
	// Stop, when it returns true, ends the exploration early (time cap).
	Stop func() bool

	Executions  int64
	Transitions int64
	Pruned      int64
	States      map[uint64]struct{}
	Capped      bool
	Outcomes    map[string]int64
	MaxPoints   int
	MaxThreads  int // most threads in one execution (harness threads plus goroutines the code under test started)
}

// Run executes one schedule: it follows prefix (an out-of-range choice is a hard error),
// then takes choice 0 at every later point.
func (e *Explorer) Run(prefix []int) (x *Execution, err error) {
	h := e.H
	n := h.Threads()
	if n > MaxThreads {
		return nil, fmt.Errorf("too many threads")
	}
	x = &Execution{}
	if e.States == nil {
		e.States = map[uint64]struct{}{}
	}
	reset(n)
	h.Init()
	baseG := runtime.NumGoroutine()
	r := &runState{}
	setRun(r)
	defer setRun(nil)
	// every thread starts parked at its initial point
	initStatus(n)
	for i := 0; i < n; i++ {
		i := i
		startThread(r, i, func() { h.Run(i) })
	}
	cur := -1
	horizon := e.Horizon
	if horizon == 0 {
		horizon = 10000
	}
	for {
		// wait for the baton
		waitBaton()
		s := snapshot()
		// pending environment question of the thread that just ran
		if cur >= 0 && s.status[cur] == stChoice {
			np := s.nopts[cur]
			opts := make([]int, np)
			for k := range opts {
				opts[k] = k
			}
			choice := 0
			if len(x.Points) < len(prefix) {
				choice = prefix[len(x.Points)]
				if choice < 0 || choice >= np {
					err = fmt.Errorf("replay diverged at point %d: environment choice %d of %d options", len(x.Points), choice, np)
					break
				}
			}
			x.Points = append(x.Points, PointRec{Sched: false, Thread: cur, Label: s.label[cur], Options: opts, Chosen: choice})
			x.Choices = append(x.Choices, choice)
			e.Transitions++
			give(cur, choice)
			continue
		}
		// scheduling choice
		var enabled []int
		curEnabled := false
		isEnabled := func(i int) bool {
			switch s.status[i] {
			case stAtPoint:
				return true
			case stBlocked:
				return lockWord(s.blocked[i]) == 0
			}
			return false
		}
		if cur >= 0 && isEnabled(cur) {
			enabled = append(enabled, cur)
			curEnabled = true
		}
		alldone := true
		for i := 0; i < s.n; i++ {
			if s.status[i] != stDone {
				alldone = false
			}
			if i != cur && isEnabled(i) {
				enabled = append(enabled, i)
			}
		}
		if alldone {
			break
		}
		if len(enabled) == 0 {
			// Goroutines the explorer does not control (started by the code under test when Spawn is
			// off or the thread table is full) may still be about to release a waiting thread: this
			// is a deadlock only once they are gone, or do not move for StallAfter.
			live := 0
			for i := 0; i < s.n; i++ {
				if s.status[i] != stDone {
					live++
				}
			}
			foreign := func() bool {
				return runtime.NumGoroutine() > baseG+live || (ForeignLive != nil && ForeignLive() > 0)
			}
			if foreign() {
				released := false
				t0 := time.Now()
				for spins := 1; foreign() && !released; spins++ {
					runtime.Gosched()
					for i := 0; i < s.n; i++ {
						if isEnabled(i) {
							released = true
						}
					}
					if spins&0xfff == 0 && time.Since(t0) > StallAfter {
						break
					}
				}
				if !released {
					for i := 0; i < s.n; i++ {
						if isEnabled(i) {
							released = true
						}
					}
				}
				if released {
					continue // look again: somebody is enabled now
				}
			}
			x.Deadlock = true
			break
		}
		if len(x.Points) >= horizon {
			x.Horizon = true
			break
		}
		idx := len(x.Points)
		// (threads the code under test started itself have local state the harness key does not
		// cover: no pruning once there are any)
		if e.Prune && idx >= len(prefix) && s.n == n {
			if hk, ok := h.Key(); ok {
				k := hk
				for i := 0; i < n; i++ {
					k = k*1099511628211 ^ uint64(s.passed[i]+1)<<8 ^ uint64(s.status[i])
				}
				if _, seen := e.States[k]; seen {
					x.Truncated = true
					e.Pruned++
					break
				}
				e.States[k] = struct{}{}
			}
		}
		choice := 0
		if idx < len(prefix) {
			choice = prefix[idx]
			if choice < 0 || choice >= len(enabled) {
				err = fmt.Errorf("replay diverged at point %d: scheduling choice %d of %d enabled threads", idx, choice, len(enabled))
				break
			}
		}
		lbl := ""
		if cur >= 0 {
			lbl = s.label[cur]
		}
		x.Points = append(x.Points, PointRec{Sched: true, Thread: cur, Label: lbl, Options: enabled, CurEnabled: curEnabled, Chosen: choice})
		x.Choices = append(x.Choices, choice)
		e.Transitions++
		cur = enabled[choice]
		give(cur, 0)
	}
	// tear down: wake every parked thread with the abort flag so that it unwinds
	s := snapshot()
	undone := false
	for i := 0; i < s.n; i++ {
		if s.status[i] != stDone {
			undone = true
		}
	}
	if undone {
		setAbort()
		for i := 0; i < nThreads(); i++ {
			if snapshot().status[i] != stDone {
				give(i, 0)
				waitBaton()
			}
		}
	}
	r.wg.Wait()
	x.Threads = nThreads()
	for i, p := range r.panics {
		if p != "" {
			x.Panics = append(x.Panics, fmt.Sprintf("thread %d panicked: %s", i, p))
		}
	}
	if err == nil && !x.Truncated && !x.Horizon {
		x.Failures = h.Finish()
		if x.Deadlock {
			x.Failures = append(x.Failures, "deadlock: no thread is enabled but not all have finished")
		}
		x.Failures = append(x.Failures, x.Panics...)
	}
	if len(x.Points) > e.MaxPoints {
		e.MaxPoints = len(x.Points)
	}
	if x.Threads > e.MaxThreads {
		e.MaxThreads = x.Threads
	}
	return x, err
}

//go:norace
//go:noinline
func initStatus(n int) {
	for i := 0; i < n; i++ {
		sh.status[i] = stAtPoint
		sh.label[i] = "start"
	}
}

func (e *Explorer) cost(p *PointRec, alt int) int {
	if alt == 0 {
		return 0
	}
	if p.Sched {
		if p.CurEnabled {
			return 1
		}
		return 0
	}
	return e.EnvCost
}

// Explore enumerates every schedule within the bound, depth first.
func (e *Explorer) Explore() error {
	if e.States == nil {
		e.States = map[uint64]struct{}{}
	}
	if e.Outcomes == nil {
		e.Outcomes = map[string]int64{}
	}
	return e.explore(nil, 0)
}

func (e *Explorer) explore(prefix []int, spent int) error {
	if e.Stop != nil && e.Stop() {
		e.Capped = true
		return nil
	}
	x, err := e.Run(prefix)
	if err != nil {
		return err
	}
	e.Executions++
	if e.OnExec != nil {
		e.OnExec(x)
	}
	// cost already spent along the recorded execution up to each point
	cost := spent
	for i := len(prefix); i < len(x.Points); i++ {
		p := &x.Points[i]
		for alt := 1; alt < len(p.Options); alt++ {
			c := cost + e.cost(p, alt)
			if e.Bound >= 0 && c > e.Bound {
				continue
			}
			np := append(append(make([]int, 0, i+1), x.Choices[:i]...), alt)
			if err := e.explore(np, c); err != nil {
				return err
			}
			if e.Capped {
				return nil
			}
		}
		cost += e.cost(p, p.Chosen)
	}
	return nil
}

// Describe renders an execution's schedule for humans.
func (x *Execution) Describe() []string {
	var out []string
	for i, p := range x.Points {
		if p.Sched {
			out = append(out, fmt.Sprintf("%d: after %q of t%d run t%d (enabled %v)", i, p.Label, p.Thread, p.Options[p.Chosen], p.Options))
		} else {
			out = append(out, fmt.Sprintf("%d: t%d %s -> answer %d of %d", i, p.Thread, p.Label, p.Chosen, len(p.Options)))
		}
	}
	return out
}
