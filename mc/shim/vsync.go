//go:build verif

// Package verifsync is a drop-in replacement for the parts of package sync that
// pipelined.dev/signal uses.  It is injected by `go build -overlay` (see
// /verif/mc/overlaytool): the import "sync" of every non-test file of /repo is
// rewritten to this package, and this file is mapped to /repo/verifsync/vsync.go.
// /repo is never modified on disk.
//
// Pool has the surface of sync.Pool.  When a Controller is attached (either the
// process-wide Global one, used by the schedule explorer, or one bound to the calling
// goroutine, used by the parallel sequence explorer) every Get and Put is delegated to it,
// so that which item a Get returns is a choice of the explorer; otherwise the calls pass
// through to a real sync.Pool.
//
// Mutex / RWMutex are controlled in the same way so that a tree that adds a lock cannot
// hang the cooperative scheduler; without a controller they are the real thing.
package verifsync

import (
	"runtime"
	"sync"
	"sync/atomic"
	"syscall"
)

type (
	WaitGroup = sync.WaitGroup
	Once      = sync.Once
	Map       = sync.Map
	Cond      = sync.Cond
	Locker    = sync.Locker
)

func NewCond(l Locker) *Cond { return sync.NewCond(l) }

func OnceFunc(f func()) func() { return sync.OnceFunc(f) }

func OnceValue[T any](f func() T) func() T { return sync.OnceValue(f) }

func OnceValues[T1, T2 any](f func() (T1, T2)) func() (T1, T2) { return sync.OnceValues(f) }

// Controller decides the answers of the environment.
type Controller interface {
	// PoolGet returns (item, true, true) to hand out a pooled item or (nil, false, true) to make
	// the pool call New (or return nil when New is nil).  handled=false: the caller is not one
	// of the controller's goroutines (a finalizer, a goroutine started by the library); the real
	// primitive is used.
	PoolGet(p *Pool) (x any, ok bool, handled bool)
	PoolPut(p *Pool, x any) (handled bool)
	// Lock blocks (in the scheduler's sense) until the lock is free.
	Lock(m *Mutex) (handled bool)
	Unlock(m *Mutex) (handled bool)
}

// Global, when non-nil, controls every Pool and Mutex of the process.
var Global Controller

var (
	bound  sync.Map // OS thread id of a goroutine locked to its thread -> Controller
	nBound atomic.Int64
)

// Bind attaches c to the calling goroutine until Unbind.  The goroutine is locked to its
// OS thread meanwhile, so that the thread id identifies it (a cheap goroutine-local).
func Bind(c Controller) {
	runtime.LockOSThread()
	bound.Store(syscall.Gettid(), c)
	nBound.Add(1)
}

// Unbind detaches the calling goroutine's controller.
func Unbind() {
	bound.Delete(syscall.Gettid())
	nBound.Add(-1)
	runtime.UnlockOSThread()
}

// Passthrough, when bound, makes the calling goroutine use the real sync primitives.
// A goroutine that uses pools while other goroutines have controllers bound must itself be
// bound (to a controller or to Passthrough): the thread id of an unlocked goroutine is stale
// by the time it is looked up.
var Passthrough Controller = passthrough{}

type passthrough struct{}

func (passthrough) PoolGet(p *Pool) (any, bool, bool) { return nil, false, false }
func (passthrough) PoolPut(p *Pool, x any) bool       { return false }
func (passthrough) Lock(m *Mutex) bool                { return false }
func (passthrough) Unlock(m *Mutex) bool              { return false }

func current() Controller {
	if g := Global; g != nil {
		return g
	}
	if nBound.Load() == 0 {
		return nil
	}
	if c, ok := bound.Load(syscall.Gettid()); ok {
		if c == Passthrough {
			return nil
		}
		return c.(Controller)
	}
	return nil
}

// Pool mirrors sync.Pool.
type Pool struct {
	New func() any

	once sync.Once
	real sync.Pool
}

func (p *Pool) Get() any {
	if c := current(); c != nil {
		if x, ok, handled := c.PoolGet(p); handled {
			if ok {
				return x
			}
			if p.New != nil {
				return p.New()
			}
			return nil
		}
	}
	p.once.Do(func() { p.real.New = p.New })
	return p.real.Get()
}

func (p *Pool) Put(x any) {
	if x == nil {
		return
	}
	if c := current(); c != nil && c.PoolPut(p, x) {
		return
	}
	p.once.Do(func() { p.real.New = p.New })
	p.real.Put(x)
}

// Mutex mirrors sync.Mutex.
type Mutex struct {
	real sync.Mutex
	// Held is owned by the controller.
	Held int32
}

func (m *Mutex) Lock() {
	if c := current(); c != nil && c.Lock(m) {
		m.real.Lock() // never blocks: the controller granted exclusivity; keeps the race detector's happens-before edges
		return
	}
	m.real.Lock()
}

func (m *Mutex) TryLock() bool {
	return m.real.TryLock()
}

func (m *Mutex) Unlock() {
	m.real.Unlock()
	if c := current(); c != nil {
		c.Unlock(m)
	}
}

// RWMutex is modelled as an exclusive lock under a controller (a sound restriction of
// the schedules a reader/writer lock admits: every exclusive schedule is also a
// reader/writer schedule).
type RWMutex struct {
	m Mutex
}

func (rw *RWMutex) Lock()          { rw.m.Lock() }
func (rw *RWMutex) Unlock()        { rw.m.Unlock() }
func (rw *RWMutex) RLock()         { rw.m.Lock() }
func (rw *RWMutex) RUnlock()       { rw.m.Unlock() }
func (rw *RWMutex) TryLock() bool  { return rw.m.TryLock() }
func (rw *RWMutex) TryRLock() bool { return rw.m.TryLock() }
func (rw *RWMutex) RLocker() Locker {
	return (*rlocker)(rw)
}

type rlocker RWMutex

func (r *rlocker) Lock()   { (*RWMutex)(r).RLock() }
func (r *rlocker) Unlock() { (*RWMutex)(r).RUnlock() }
