package props

import (
	"crypto/sha256"
	"encoding/hex"
	"encoding/json"
	"fmt"
	"math"
	"sync"
	"sync/atomic"

	"verif/mc/core"
	"verif/mc/dyn"
)

// Context passes (shared by C05-C09).  The value sweeps convert ascending sequences, so a
// result that depends on its *neighbours*, on its *position/alignment* inside a long
// buffer, or on *which instantiation ran before* would slip through.  These passes convert
// a small alphabet of special values in arrangements built to vary exactly that:
//
//	neighbours: every ordered pair (u, v) of specials at every lane offset mod 8, in one
//	            buffer of > 4096 samples, with 1, 2 and 3 channels;
//	outlier:    200 calm values with a single special at each position 0..130;
//	tail:       special values in the last 8 positions of buffers of every length around
//	            64, 128, 256, 512, 1024, 4096 (all residues mod 8);
//	adjacency:  for every ordered pair (A, B) of instantiations, A then B;
//	provenance: the source buffer was filled only through windows of it, came from a pool that had
//	            recycled it, or was the destination of another conversion before.
//
// Every output is judged by the property's own pointwise oracle, and (where the property
// implies it) must equal the result of converting that value alone in a 1x1 buffer.

type ctxCase struct {
	Prop string `json:"prop"`
	Pass string `json:"pass"` // neighbours | outlier | adjacency
	S, D string
	S2   string `json:"s2,omitempty"` // adjacency: the instantiation that ran before
	D2   string `json:"d2,omitempty"`
	Ch   int
	Spec int // outlier: index of the special
	Pos  int // outlier: its position
}

// ctxJudge is a property's pointwise oracle on raw values ("" = fine).
type ctxJudge func(s, d int, in, out uint64) (kind, msg string)

func ctxSpecials(s int) []uint64 {
	ty := dyn.Types[s]
	switch ty.Kind {
	case dyn.Signed:
		lo, hi := minAmp(ty.Bits), maxAmp(ty.Bits)
		var r []uint64
		for _, a := range []int64{lo, lo + 1, lo / 2, -77, -1, 0, 1, 3, 77, hi/2 + 1, hi - 1, hi} {
			r = append(r, uint64(a))
		}
		return r
	case dyn.Unsigned:
		var r []uint64
		hi := maxAmp(ty.Bits)
		for _, a := range []int64{minAmp(ty.Bits), minAmp(ty.Bits) + 1, minAmp(ty.Bits) / 2, -77, -1, 0, 1, 3, 77, hi/2 + 1, hi - 1, hi} {
			r = append(r, ampToRaw(dyn.Unsigned, ty.Bits, a))
		}
		return r
	}
	big := 1e30
	vals := []float64{math.Inf(-1), -big, -2.25, -1.5, -1, -0.999, -0.5, -1e-9, math.Copysign(0, -1), 0, 1e-9, 0.25, 0.5, 0.999, 1, 1.5, 3, big, math.Inf(1)}
	var r []uint64
	for _, v := range vals {
		if ty.Bits == 32 {
			v = float64(float32(v))
		}
		r = append(r, math.Float64bits(v))
	}
	return r
}

func ctxCalm(s int) uint64 {
	ty := dyn.Types[s]
	switch ty.Kind {
	case dyn.Signed:
		return 3
	case dyn.Unsigned:
		return ampToRaw(dyn.Unsigned, ty.Bits, 3)
	}
	return math.Float64bits(0.25)
}

func ctxShow(t int, raw uint64) string { return dyn.Val{K: dyn.Types[t].Kind, B: raw}.String() }

// ctxNeighbours builds the arrangement of all ordered pairs at all lane offsets.
func ctxNeighbours(sp []uint64) []uint64 {
	var seq []uint64
	for off := 0; off < 8; off++ {
		for _, u := range sp {
			for _, v := range sp {
				seq = append(seq, u, v)
			}
		}
		seq = append(seq, sp[off%len(sp)]) // shifts the lanes of the next round by one
	}
	for len(seq) < 4200 {
		seq = append(seq, sp...)
	}
	return seq
}

type ctxRunner struct {
	equalOnlyTail bool
	c             *core.Ctx
	prop          string
	judge         ctxJudge
	equal         bool // outputs must equal the isolated single-sample result
	filter        func(s, d int) bool
	evals         int64
	cap           *failCap
}

// baseline: each special converted alone (1 sample, 1 channel).
func ctxBaseline(s, d int) []uint64 {
	sp := ctxSpecials(s)
	out := make([]uint64, len(sp))
	f := dyn.ConvBlockCh(s, d, 1, 1)
	one := make([]uint64, 1)
	for i, v := range sp {
		f([]uint64{v}, one)
		out[i] = one[0]
	}
	return out
}

func sameRaw(d int, a, b uint64) bool {
	if dyn.Types[d].Kind == dyn.Float {
		fa, fb := math.Float64frombits(a), math.Float64frombits(b)
		if math.IsNaN(fa) && math.IsNaN(fb) {
			return true
		}
	}
	return a == b
}

// check judges one output.
func (r *ctxRunner) check(cs ctxCase, s, d int, in, out uint64, base map[uint64]uint64, where string) bool {
	r.evals++
	// (no strings on the path taken by the millions of samples that are fine)
	kind, msg := "", ""
	if r.judge != nil {
		kind, msg = r.judge(s, d, in, out)
	}
	b, known := base[in]
	dependent := r.equal && known && !sameRaw(d, b, out)
	if kind == "" && !dependent {
		return false
	}
	name := dyn.ConvName(s, d) + "/" + dyn.Types[s].Name + "->" + dyn.Types[d].Name
	var fs []F
	if kind != "" {
		fs = append(fs, F{Key: name + "/" + kind, Msg: fmt.Sprintf("%s %s: %s", name, where, msg)})
	}
	if dependent {
		fs = append(fs, F{Key: name + "/context-dependent", Msg: fmt.Sprintf("%s %s: input %s gives %s, but %s when converted alone: the result depends on more than the sample and the two formats",
			name, where, ctxShow(s, in), ctxShow(d, out), ctxShow(d, b))})
	}
	if r.cap.ok(fs[0].Key) {
		r.c.Fail(cs, fs...)
	}
	return true
}

// runInst runs the neighbours and outlier passes of one instantiation.
func (r *ctxRunner) runInst(s, d int, only *ctxCase) {
	sp := ctxSpecials(s)
	baseOut := ctxBaseline(s, d)
	base := map[uint64]uint64{}
	for i, v := range sp {
		base[v] = baseOut[i]
	}
	calm := ctxCalm(s)
	one := make([]uint64, 1)
	dyn.ConvBlockCh(s, d, 1, 1)([]uint64{calm}, one)
	base[calm] = one[0]
	mk := func(pass string, ch, spec, pos int) ctxCase {
		return ctxCase{Prop: r.prop, Pass: pass, S: tn(s), D: tn(d), Ch: ch, Spec: spec, Pos: pos}
	}
	if only == nil || only.Pass == "neighbours" {
		seq := ctxNeighbours(sp)
		out := make([]uint64, len(seq))
		for _, ch := range []int{1, 2, 3} {
			if only != nil && only.Ch != ch {
				continue
			}
			dyn.ConvBlockCh(s, d, len(seq), ch)(seq, out)
			for i := range seq {
				prev := "start"
				if i > 0 {
					prev = ctxShow(s, seq[i-1])
				}
				r.check(mk("neighbours", ch, 0, 0), s, d, seq[i], out[i], base,
					fmt.Sprintf("[buffer of %d samples, %d channel(s), position %d (lane %d), after %s]", len(seq), ch, i, i%8, prev))
			}
		}
	}
	if only == nil || only.Pass == "tail" {
		// the last positions of buffers whose lengths surround the usual thresholds and cover every
		// residue mod 8: remainder loops of unrolled / block-wise paths
		for _, around := range []int{64, 128, 256, 512, 1024, 4096} {
			for L := around - 1; L <= around+8; L++ {
				for rot := 0; rot*8 < len(sp); rot++ {
					if only != nil && (only.Pos != L || only.Spec != rot) {
						continue
					}
					in := make([]uint64, L)
					for i := range in {
						in[i] = calm
					}
					for j := 0; j < 8 && j < L; j++ {
						in[L-1-j] = sp[(rot*8+j)%len(sp)]
					}
					out := make([]uint64, L)
					dyn.ConvBlockCh(s, d, L, 1)(in, out)
					for j := 0; j < 9 && j < L; j++ {
						i := L - 1 - j
						r.check(mk("tail", 1, rot, L), s, d, in[i], out[i], base,
							fmt.Sprintf("[buffer of %d samples, special values in its last 8 positions; looking at position %d]", L, i))
					}
				}
			}
		}
	}
	// (the passes from here on do not depend on history or on named types: built-in instantiations only,
	// and not again in the reverse-order process)
	extra := only != nil || (s < dyn.NB && d < dyn.NB && !core.Reversed())
	if extra && (only == nil || only.Pass == "nan-neighbour") && dyn.Types[s].Kind == dyn.Float {
		// a NaN somewhere in the buffer (its own result is unspecified and not looked at) must not change
		// what the other samples become
		nan := math.Float64bits(math.NaN())
		var finite []uint64
		for _, v := range sp {
			if f := math.Float64frombits(v); !math.IsInf(f, 0) {
				finite = append(finite, v)
			}
		}
		for where := 0; where < 6; where++ {
			if only != nil && only.Spec != where {
				continue
			}
			// (where >= 3: finite values only, so that nothing after the NaN "repairs" a running maximum)
			in := append(append([]uint64{}, sp...), sp...)
			if where >= 3 {
				in = append(append([]uint64{}, finite...), finite...)
			}
			at := []int{0, len(in) / 2, len(in) - 1}[where%3]
			in[at] = nan
			out := make([]uint64, len(in))
			dyn.ConvBlockCh(s, d, len(in), 1)(in, out)
			for i := range in {
				if i != at {
					r.check(mk("nan-neighbour", 1, where, i), s, d, in[i], out[i], base, fmt.Sprintf("[a NaN at position %d of %d samples; looking at position %d]", at, len(in), i))
				}
			}
		}
	}
	if extra && (only == nil || only.Pass == "constant") {
		// the whole buffer holds one value (silence, a clipped plateau): shortcuts for "all samples equal"
		// or "all zero" must still give every position its own result
		for si, v := range sp {
			for ni, n := range []int{1, 2, 40} {
				if only != nil && (only.Spec != si || only.Pos != ni) {
					continue
				}
				in := make([]uint64, n)
				for i := range in {
					in[i] = v
				}
				out := make([]uint64, n)
				dyn.ConvBlockCh(s, d, n, 1)(in, out)
				for i := range in {
					if r.check(mk("constant", 1, si, ni), s, d, in[i], out[i], base, fmt.Sprintf("[a buffer of %d samples that all hold %s; position %d]", n, ctxShow(s, v), i)) {
						break
					}
				}
			}
		}
	}
	if extra && (only == nil || only.Pass == "uneven") {
		// source longer than the destination, and the other way round (blocked loops anchor their tail
		// block at the end of the wrong buffer): lengths that are not multiples of the usual block sizes
		for vi, n := range []int{130, 300, 1100} {
			for which := 0; which < 2; which++ {
				if only != nil && (only.Spec != vi || only.Pos != which) {
					continue
				}
				in := make([]uint64, n)
				for i := range in {
					in[i] = sp[(i+i/len(sp))%len(sp)]
				}
				out := make([]uint64, n)
				se, de := 37, 0
				if which == 1 {
					se, de = 0, 37
				}
				dyn.ConvBlockUneven(s, d, n, 1, se, de)(in, out)
				for i := range in {
					r.check(mk("uneven", 1, vi, which), s, d, in[i], out[i], base,
						fmt.Sprintf("[%d samples converted, source %d and destination %d frames longer; position %d]", n, se, de, i))
				}
			}
		}
	}
	if extra && (only == nil || only.Pass == "provenance") {
		// the source buffer came about in an unusual way (dyn.ConvVia): filled only through windows of
		// it, recycled by a pool, or first the destination of another conversion.  State that a buffer
		// header carries about its own contents (a "silent" or "already in range" flag) goes stale there.
		in := append(append([]uint64{}, sp...), sp...)
		out := make([]uint64, len(in))
		for route := 1; route <= 4; route++ {
			if only != nil && only.Spec != route {
				continue
			}
			dyn.ConvVia(s, d, route, in, out)
			for i := range in {
				r.check(mk("provenance", 1, route, i), s, d, in[i], out[i], base,
					fmt.Sprintf("[source buffer %s; position %d]", [...]string{"", "filled only through Slice windows of it", "taken from a pool that recycled it, filled through windows", "first the destination of another conversion, then overwritten through a window", "grown to its size by Append, like the destination"}[route], i))
			}
		}
	}
	if only == nil || only.Pass == "outlier" {
		const n = 200
		in := make([]uint64, n)
		out := make([]uint64, n)
		f := dyn.ConvBlockCh(s, d, n, 1)
		for si, v := range sp {
			for pos := 0; pos <= 130; pos++ {
				if only != nil && (only.Spec != si || only.Pos != pos) {
					continue
				}
				for i := range in {
					in[i] = calm
				}
				in[pos] = v
				f(in, out)
				for _, i := range []int{pos, (pos + 1) % n, (pos + n - 1) % n, n - 1} {
					r.check(mk("outlier", 1, si, pos), s, d, in[i], out[i], base,
						fmt.Sprintf("[%d calm samples with the single value %s at position %d; looking at position %d]", n, ctxShow(s, v), pos, i))
				}
			}
		}
	}
	// every ordered pair of special values side by side among small NEGATIVE values, in 2- and 3-channel
	// buffers, at both alignments: per-frame fast paths that stay on while every frame so far was harmless
	if extra && (only == nil || only.Pass == "pair-in-calm") {
		calm2 := ctxCalmNeg(s)
		dyn.ConvBlockCh(s, d, 1, 1)([]uint64{calm2}, one)
		base[calm2] = one[0]
		for _, ch := range []int{2, 3} {
			n := 6 * ch
			f := dyn.ConvBlockCh(s, d, n, ch)
			in := make([]uint64, n)
			out := make([]uint64, n)
			for off := 0; off < 2; off++ {
				for ai, a := range sp {
					for bi, b := range sp {
						if only != nil && (only.Ch != ch || only.Spec != ai*100+bi || only.Pos != off) {
							continue
						}
						for i := range in {
							in[i] = calm2
						}
						pos := 2*ch + off
						in[pos], in[pos+1] = a, b
						f(in, out)
						for i := range in {
							r.check(mk("pair-in-calm", ch, ai*100+bi, off), s, d, in[i], out[i], base,
								fmt.Sprintf("[%d small negative samples in %d channels with the values %s, %s at positions %d, %d; looking at position %d]", n, ch, ctxShow(s, a), ctxShow(s, b), pos, pos+1, i))
						}
					}
				}
			}
		}
	}
}

// ctxCalmNeg: a small negative value of the source type (the most negative-but-harmless neighbour).
func ctxCalmNeg(s int) uint64 {
	ty := dyn.Types[s]
	switch ty.Kind {
	case dyn.Signed:
		return uint64(^uint64(2)) // -3
	case dyn.Unsigned:
		return ampToRaw(dyn.Unsigned, ty.Bits, -3)
	}
	return math.Float64bits(-0.25)
}

// giant converts very long buffers of cycling special values; every output must pass the
// pointwise oracle and equal the isolated result (for properties without an equality clause
// the comparison is restricted to detecting samples that were not converted at all: the
// output still holds the garbage the destination was pre-filled with while the isolated
// result differs from it).
func (r *ctxRunner) giant(s, d int, lens []int, only *ctxCase) {
	sp := ctxSpecials(s)
	baseOut := ctxBaseline(s, d)
	base := map[uint64]uint64{}
	for i, v := range sp {
		base[v] = baseOut[i]
	}
	garbage := dyn.Garbage(d).B
	for _, L := range lens {
		for _, ch := range []int{1, 3} {
			if only != nil && (only.Pos != L || only.Ch != ch) {
				continue
			}
			if only == nil && L >= 1<<24 && ch != 1 {
				continue // the longest buffers with one channel only (each takes seconds)
			}
			in := make([]uint64, L)
			for i := range in {
				in[i] = sp[(i+i/len(sp))%len(sp)]
			}
			out := make([]uint64, L)
			dyn.ConvBlockCh(s, d, L, ch)(in, out)
			cs := ctxCase{Prop: r.prop, Pass: "giant", S: tn(s), D: tn(d), Ch: ch, Pos: L}
			bad := 0
			for i := range in {
				want := baseOut[(i+i/len(sp))%len(sp)] // the isolated result of this position's value
				if !r.equalOnlyTail && bad < 3 && sameRaw(d, want, out[i]) {
					if r.judge == nil {
						r.evals++
						continue
					}
					if kind, _ := r.judge(s, d, in[i], out[i]); kind == "" {
						r.evals++
						continue
					}
				}
				if r.equalOnlyTail {
					if b := want; out[i] == garbage && b != garbage {
						r.evals++
						if bad < 3 && r.cap.ok("unconverted") {
							name := dyn.ConvName(s, d) + "/" + tn(s) + "->" + tn(d)
							r.c.Fail(cs, F{Key: name + "/not-converted", Msg: fmt.Sprintf("%s [buffer of %d samples, %d channel(s)]: position %d still holds the garbage the destination was pre-filled with (input %s)", name, L, ch, i, ctxShow(s, in[i]))})
						}
						bad++
						continue
					}
					if r.judge != nil {
						if kind, msg := r.judge(s, d, in[i], out[i]); kind != "" && bad < 3 {
							name := dyn.ConvName(s, d) + "/" + tn(s) + "->" + tn(d)
							if r.cap.ok(name + kind) {
								r.c.Fail(cs, F{Key: name + "/" + kind, Msg: fmt.Sprintf("%s [buffer of %d samples, %d channel(s), position %d]: %s", name, L, ch, i, msg)})
							}
							bad++
						}
					}
					r.evals++
					continue
				}
				if bad < 3 {
					if r.check(cs, s, d, in[i], out[i], base, "") {
						bad++
						r.check(cs, s, d, in[i], out[i], base, fmt.Sprintf("[buffer of %d samples, %d channel(s), position %d]", L, ch, i))
					}
				} else {
					r.evals++
				}
			}
		}
	}
}

// adjacency runs A then B and judges B's outputs.
func (r *ctxRunner) adjacency(a, b [2]int) {
	spA := ctxSpecials(a[0])
	outA := make([]uint64, len(spA))
	dyn.ConvBlockCh(a[0], a[1], len(spA), 1)(spA, outA)
	spB := ctxSpecials(b[0])
	outB := make([]uint64, len(spB))
	dyn.ConvBlockCh(b[0], b[1], len(spB), 1)(spB, outB)
	cs := ctxCase{Prop: r.prop, Pass: "adjacency", S: tn(b[0]), D: tn(b[1]), S2: tn(a[0]), D2: tn(a[1]), Ch: 1}
	base := map[uint64]uint64{}
	if r.equal {
		bo := ctxBaselineCached(b[0], b[1])
		for i, v := range spB {
			base[v] = bo[i]
		}
	}
	for i := range spB {
		r.check(cs, b[0], b[1], spB[i], outB[i], base, fmt.Sprintf("[directly after a %s[%s,%s] call]", dyn.ConvName(a[0], a[1]), tn(a[0]), tn(a[1])))
	}
}

var ctxBaseCache = map[[2]int][]uint64{}

func ctxBaselineCached(s, d int) []uint64 {
	k := [2]int{s, d}
	if b, ok := ctxBaseCache[k]; ok {
		return b
	}
	b := ctxBaseline(s, d)
	ctxBaseCache[k] = b
	return b
}

// ctxRun runs all passes for the instantiations the filter admits, sequentially (the
// passes are about state kept between calls), and returns a digest per instantiation of
// the isolated results, for comparison with a process that used them in the opposite order.
func ctxRun(c *core.Ctx, prop string, judge ctxJudge, equal bool, filter func(s, d int) bool) map[string]string {
	digests := ctxDigests(filter)
	ctxPasses(c, prop, judge, equal, filter)
	return digests
}

// ctxDigests makes the first use of every admitted instantiation, sequentially and in this process's
// order (instOrder), and returns a digest per instantiation of the isolated results.  A check
// calls it before anything else that converts, so that the order of first use is the same in every run.
func ctxDigests(filter func(s, d int) bool) map[string]string {
	digests := map[string]string{}
	for _, sd := range instOrder() {
		if !filter(sd[0], sd[1]) {
			continue
		}
		b := ctxBaselineCached(sd[0], sd[1])
		h := sha256.New()
		for _, x := range b {
			fmt.Fprintf(h, "%x,", x)
		}
		// and the same values through a long buffer (paths that only long buffers take)
		sp := ctxSpecials(sd[0])
		long := make([]uint64, 1100)
		for i := range long {
			long[i] = sp[i%len(sp)]
		}
		lout := make([]uint64, len(long))
		dyn.ConvBlockCh(sd[0], sd[1], len(long), 2)(long, lout)
		for _, x := range lout {
			fmt.Fprintf(h, "%x,", x)
		}
		digests[tn(sd[0])+"->"+tn(sd[1])] = hex.EncodeToString(h.Sum(nil)[:8])
	}
	return digests
}

// ctxPasses runs the neighbour, outlier, tail, adjacency and very-long-buffer passes.
func ctxPasses(c *core.Ctx, prop string, judge ctxJudge, equal bool, filter func(s, d int) bool) {
	r := &ctxRunner{c: c, prop: prop, judge: judge, equal: equal, filter: filter, cap: newFailCap(20)}
	var insts [][2]int
	for _, sd := range instOrder() {
		if filter(sd[0], sd[1]) {
			insts = append(insts, sd)
		}
	}
	for _, sd := range insts {
		r.runInst(sd[0], sd[1], nil)
	}
	// every ordered pair of built-in instantiations back to back; an instantiation with a named element
	// type next to its built-in twin, the other named spellings of the same pair, and itself
	base := func(t int) int {
		if t >= dyn.NB {
			return (t - dyn.NB) % dyn.NB
		}
		return t
	}
	named := func(sd [2]int) bool { return sd[0] >= dyn.NB || sd[1] >= dyn.NB }
	for _, a := range insts {
		for _, b := range insts {
			if (named(a) || named(b)) && (base(a[0]) != base(b[0]) || base(a[1]) != base(b[1])) {
				continue
			}
			r.adjacency(a, b)
			if c.Expired() {
				break
			}
		}
	}
	// very long buffers (paths that split or parallelise the work): 2^20+3 samples (thorough: also
	// 2^22+5) of special values in 1 and 3 channels; these do not depend on history and run on all cores
	lens := []int{1<<20 + 3}
	if !c.Quick() {
		lens = append(lens, 1<<22+7)
	}
	if core.Reversed() {
		lens = nil // independent of history: once is enough
	}
	var gevals atomic.Int64
	seenFn := map[string]bool{}
	var mu sync.Mutex
	c.ParallelFor(len(insts), func(i int) {
		s, d := insts[i][0], insts[i][1]
		sub := &ctxRunner{c: c, prop: prop, judge: judge, equal: true, cap: r.cap}
		sub.equalOnlyTail = !equal // properties without the equality clause still need "written at all": judged below
		ls := lens
		if c.Quick() && (s >= dyn.NB || d >= dyn.NB) {
			return // quick tier: very long buffers for the built-in instantiations only (named twins share their code)
		}
		// quick tier: the 2^22+5 length for one instantiation of each conversion function
		mu.Lock()
		if fn := dyn.ConvName(s, d); len(lens) > 0 && !seenFn[fn] && s != d {
			// one instantiation of each conversion function also at 2^24+5 samples (beyond what
			// single-precision arithmetic and 24-bit fields hold exactly), in the quick tier also at 2^22+7
			seenFn[fn] = true
			ls = append(append([]int{}, lens...), 1<<24+5)
			if c.Quick() {
				ls = append(ls, 1<<22+7)
			}
		}
		mu.Unlock()
		sub.giant(s, d, ls, nil)
		gevals.Add(sub.evals)
	})
	r.evals += gevals.Load()
	// the process environment: the same long conversions with GOMAXPROCS 1, 2, 3 (not a power of two,
	// fewer than the machine has) and 48 (more than the machine has) — code that splits work by the
	// number of processors is different code for each of them.  One instantiation of each conversion
	// function, and every same-type one, at 2^17+5 samples.
	if !core.Reversed() {
		var envInsts [][2]int
		seen := map[string]bool{}
		for _, sd := range insts {
			fn := dyn.ConvName(sd[0], sd[1])
			if sd[0] < dyn.NB && sd[1] < dyn.NB && (sd[0] == sd[1] || !seen[fn]) {
				if sd[0] != sd[1] {
					seen[fn] = true
				}
				envInsts = append(envInsts, sd)
			}
		}
		g0 := gevals.Load()
		for _, procs := range envProcs {
			if c.Expired() {
				break
			}
			c.WithProcs(procs, func() {
				c.ParallelFor(len(envInsts), func(i int) {
					sub := &ctxRunner{c: c, prop: prop, judge: judge, equal: true, cap: r.cap}
					sub.equalOnlyTail = !equal
					sub.giant(envInsts[i][0], envInsts[i][1], []int{1<<17 + 5}, nil)
					gevals.Add(sub.evals)
				})
			})
		}
		c.Set("gomaxprocs_values_for_long_conversions", envProcs)
		r.evals += gevals.Load() - g0
	}
	c.Add("context_pass_evaluations", r.evals)
	c.Eval(r.evals, 0)
}

// envProcs are the GOMAXPROCS values the process-environment passes use besides the default.
var envProcs = []int{1, 2, 3, 48}

// ctxReplay re-executes one recorded context case.
func ctxReplay(c *core.Ctx, raw json.RawMessage, judge ctxJudge, equal bool) []F {
	cs := decode[ctxCase](raw)
	if cs.Pass == "order-of-use" {
		return nil // a comparison between two processes: not re-executable in one
	}
	sub := core.NewCtx(c.Prop, c.Tier, c.Seed)
	r := &ctxRunner{c: sub, prop: cs.Prop, judge: judge, equal: equal, cap: newFailCap(1000)}
	s, d := typeByName(cs.S), typeByName(cs.D)
	if cs.Pass == "adjacency" {
		r.adjacency([2]int{typeByName(cs.S2), typeByName(cs.D2)}, [2]int{s, d})
	} else if cs.Pass == "giant" {
		r.equalOnlyTail = !equal
		r.equal = true
		r.giant(s, d, []int{cs.Pos}, &cs)
	} else {
		r.runInst(s, d, &cs)
	}
	var fs []F
	for _, v := range sub.Export() {
		fs = append(fs, v.Failure)
	}
	return fs
}

// isCtxCase tells a context case from a sweep case in a replay file.
func isCtxCase(raw json.RawMessage) bool {
	var probe struct {
		Pass string `json:"pass"`
	}
	return json.Unmarshal(raw, &probe) == nil && probe.Pass != ""
}

// ctxCompareDigests reports instantiations whose isolated results differ between this
// process and the reverse-order process.
func ctxCompareDigests(c *core.Ctx, mine, theirs map[string]string) {
	for k, v := range mine {
		if o, ok := theirs[k]; ok && o != v {
			s := k
			c.Fail(ctxCase{Prop: c.Prop.ID, Pass: "order-of-use", S: s}, F{Key: "conversion/" + k + "/order-of-use-dependent",
				Msg: fmt.Sprintf("%s: converting the same special values alone gives different results in a process that used the instantiations in the opposite order (digest %s vs %s): the result depends on what was converted earlier", k, v, o)})
		}
	}
}
