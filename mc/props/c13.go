package props

import (
	"encoding/json"
	"fmt"

	"verif/mc/core"
	"verif/mc/dyn"
)

// C13 — Alloc yields exactly the requested, zeroed, independent buffer.

type c13Case struct {
	Type    string `json:"type"`
	C, L, K int
	// second allocation of the pair test (C2 == 0: none)
	C2, L2, K2 int
	// GCWindow: parent Alloc(C, K, K) of which only the window Slice(S, E) is kept across garbage
	// collections, then allocations of the same shape (gcpass.go)
	GCWindow bool `json:"gc_window,omitempty"`
	S, E     int  `json:"s,omitempty"`
	// Outgrown: a buffer Alloc(C, K, K) of which a window is kept is grown by Append (it moves to new
	// storage, the window keeps the old one); then Alloc(C2, L2, K2): fresh, and independent of the window
	// over the outgrown storage and of the grown buffer
	Outgrown bool `json:"outgrown,omitempty"`
}

func c13Run(cs c13Case) []F {
	return core.Guard("Alloc", func() []F { return c13RunRaw(cs) })
}

func c13RunRaw(cs c13Case) (fs []F) {
	if cs.GCWindow {
		return gcReplay(typeByName(cs.Type), gcShape{cs.C, cs.K, cs.S, cs.E}, false, "Alloc")
	}
	if cs.Outgrown {
		return c13Outgrown(cs)
	}
	t := typeByName(cs.Type)
	ty := dyn.Types[t]
	fail := func(kind, format string, a ...any) {
		fs = append(fs, core.Failf("Alloc/"+kind+"/"+cs.Type, "Alloc[%s](C=%d,L=%d,K=%d): %s", cs.Type, cs.C, cs.L, cs.K, fmt.Sprintf(format, a...)))
	}
	var b dyn.Buf
	if p, msg := dyn.Try(func() { b = dyn.Alloc(t, al(cs.C, cs.L, cs.K)) }); p {
		fail("panic", "panicked: %s", msg)
		return
	}
	want := header{cs.C, ty.Bits, cs.C * cs.L, cs.C * cs.K, cs.L, cs.K}
	if got := hdr(b); got != want {
		if got.Bits != want.Bits {
			fail("bitdepth", "bit depth %d, want %d", got.Bits, want.Bits)
		}
		got.Bits = want.Bits
		if got != want {
			fail("shape", "shape %+v, want %+v", got, want)
		}
		return
	}
	fb := full(b)
	if fb.Len() != cs.C*cs.K {
		fail("shape", "full-capacity view has Len %d, want %d", fb.Len(), cs.C*cs.K)
		return
	}
	for i := 0; i < fb.Len(); i++ {
		if v := fb.Sample(i); v.B != 0 {
			fail("nonzero", "sample %d of the fresh buffer is %v", i, v)
			return
		}
	}
	if cs.C2 == 0 {
		return
	}
	b2 := dyn.Alloc(t, al(cs.C2, cs.L2, cs.K2))
	fb2 := full(b2)
	fill(fb, 1)
	for i := 0; i < fb2.Len(); i++ {
		if v := fb2.Sample(i); v.B != 0 {
			fail("shared", "stamping the first allocation changed sample %d of a second Alloc(C=%d,L=%d,K=%d) to %v", i, cs.C2, cs.L2, cs.K2, v)
			return
		}
	}
	fill(fb2, 50)
	for i := 0; i < fb.Len(); i++ {
		if v := fb.Sample(i).Tok(); v != tk(int64(1+i)) {
			fail("shared", "stamping the second allocation changed sample %d of the first to %v", i, v)
			return
		}
	}
	return
}

func c13Outgrown(cs c13Case) (fs []F) {
	t := typeByName(cs.Type)
	fail := func(kind, format string, a ...any) {
		fs = append(fs, core.Failf("Alloc/"+kind+"/"+cs.Type, "Alloc[%s](C=%d,L=%d,K=%d) after a buffer Alloc(C=%d,K=%d) was outgrown by Append while a window of it is kept: %s", cs.Type, cs.C2, cs.L2, cs.K2, cs.C, cs.K, fmt.Sprintf(format, a...)))
	}
	old := dyn.Alloc(t, al(cs.C, cs.K, cs.K))
	fill(old, 1)
	win := full(old)
	src := dyn.Alloc(t, al(cs.C, 1, 1))
	fill(src, 90)
	old.Append(src) // grows: moves to new storage
	b := dyn.Alloc(t, al(cs.C2, cs.L2, cs.K2))
	fb := full(b)
	for i := 0; i < fb.Len(); i++ {
		if v := fb.Sample(i); v.B != 0 {
			fail("nonzero", "sample %d of the fresh buffer is %v", i, v)
			return
		}
	}
	for i := 0; i < win.Len(); i++ {
		if g := win.Sample(i).Tok(); g != tk(int64(1+i)) {
			fail("shared", "the allocation changed sample %d of the window over the outgrown storage from %d to %d", i, tk(int64(1+i)), g)
			return
		}
	}
	fill(fb, 40)
	for i := 0; i < win.Len(); i++ {
		if g := win.Sample(i).Tok(); g != tk(int64(1+i)) {
			fail("shared", "stamping the fresh buffer changed sample %d of the window over the outgrown storage to %d", i, g)
			return
		}
	}
	for i := 0; i < cs.C*cs.K; i++ {
		if g := old.Sample(i).Tok(); g != tk(int64(1+i)) {
			fail("shared", "stamping the fresh buffer changed sample %d of the grown buffer to %d", i, g)
			return
		}
	}
	fill(win, 60)
	for i := 0; i < fb.Len(); i++ {
		if g := fb.Sample(i).Tok(); g != tk(int64(40+i)) {
			fail("shared", "a write through the window over the outgrown storage changed sample %d of the fresh buffer to %d", i, g)
			return
		}
	}
	return
}

func init() {
	core.Register(&core.Prop{
		ID: "C13", Level: "exploration", Design: "§5 C13",
		Run: func(c *core.Ctx) {
			chans := []int{1, 2, 3, 4, 5, 6, 7, 8, 9, 16, 32, 64, 65, 100, 255, 256, 300, 1024}
			caps := []int{0, 1, 2, 3, 4, 5, 6, 7, 8, 63, 64, 65, 1000, 1025, 4096, 20000}
			if c.Quick() {
				caps = []int{0, 1, 2, 3, 4, 5, 6, 7, 8, 63, 64, 65, 1000, 1025}
			}
			var cases []c13Case
			for _, ty := range dyn.Types {
				for _, C := range chans {
					for _, K := range caps {
						var ls []int
						if K <= 8 {
							for l := 0; l <= K; l++ {
								ls = append(ls, l)
							}
						} else {
							ls = []int{0, 1, K - 1, K}
						}
						for _, L := range ls {
							cases = append(cases, c13Case{Type: ty.Name, C: C, L: L, K: K})
						}
					}
				}
				// every channel count up to 1030 on a few small capacities (one type)
				if ty.ID == dyn.Int8 {
					for C := 1; C <= 1030; C++ {
						for _, K := range []int{1, 2, 3, 7, 12} {
							if C > 130 && K > 7 {
								continue
							}
							cases = append(cases, c13Case{Type: ty.Name, C: C, L: K / 2, K: K})
						}
					}
				}
				// more channels than fit in 8 or 16 bits (a few shapes: the buffers are large)
				if ty.ID == dyn.Int8 || ty.ID == dyn.Float64 || ty.ID == dyn.MyInt16ID() {
					for _, C := range []int{65535, 65536, 65538, 1<<17 + 1} {
						for _, lk := range [][2]int{{0, 0}, {0, 1}, {1, 1}, {1, 3}} {
							cases = append(cases, c13Case{Type: ty.Name, C: C, L: lk[0], K: lk[1]})
						}
					}
				}
				// ordered pairs of allocations from a reduced shape set
				shapes := [][3]int{{1, 0, 1}, {1, 1, 1}, {2, 1, 2}, {3, 2, 2}, {1, 0, 0}, {2, 0, 3}, {8, 4, 4}, {2, 100, 700}, {1, 0, 5000}, {9, 1, 2}}
				for _, a := range shapes {
					for _, b := range shapes {
						cases = append(cases, c13Case{Type: ty.Name, C: a[0], L: a[1], K: a[2], C2: b[0], L2: b[1], K2: b[2]})
					}
				}
			}
			c.ParallelFor(len(cases), func(i int) {
				cs := cases[i]
				c.Check(cs, cs.K > 0, c13Run(cs))
			})
			// windows that outlive their parent across garbage collections, then allocations of the same shape
			gcN := gcWindowPass(valTypes(), false, "Alloc", func(t int, sh gcShape, fs []F) {
				c.Check(c13Case{Type: tn(t), C: sh.C, L: sh.K, K: sh.K, GCWindow: true, S: sh.S, E: sh.E}, true, fs)
			})
			c.Set("windows_kept_across_garbage_collections", gcN)
			// allocations right after a buffer was outgrown by Append while a window of its old storage is kept
			var og []c13Case
			for _, t := range []int{dyn.Int8, dyn.Int32, dyn.Float64, dyn.MyInt16ID()} {
				for C := 1; C <= 3; C++ {
					for _, K := range []int{1, 2, 5, 64} {
						og = append(og, c13Case{Type: tn(t), C: C, K: K, Outgrown: true, C2: C, L2: 0, K2: K},
							c13Case{Type: tn(t), C: C, K: K, Outgrown: true, C2: C, L2: K, K2: K},
							c13Case{Type: tn(t), C: C, K: K, Outgrown: true, C2: 1, L2: 1, K2: C * K},
							c13Case{Type: tn(t), C: C, K: K, Outgrown: true, C2: C, L2: 1, K2: K + 1})
					}
				}
			}
			c.ParallelFor(len(og), func(i int) { c.Check(og[i], true, c13Run(og[i])) })
			// many allocations in a row (a counter, a recycled arena): every one fresh and independent of the
			// ones still alive; sequential on purpose
			for _, t := range []int{dyn.Int8, dyn.Float64, dyn.MyInt16ID()} {
				var alive []dyn.Buf
				for k := 0; k < 600; k++ {
					cs := c13Case{Type: tn(t), C: 1 + k%3, L: k % 5, K: 4 + k%7}
					if fs := c13Run(cs); len(fs) > 0 {
						c.Fail(cs, fs...)
						break
					}
					b := dyn.Alloc(t, al(cs.C, cs.L, cs.K))
					fill(full(b), int64(1+k%100))
					alive = append(alive, b)
					if k%50 == 49 {
						for j, a := range alive {
							fb := full(a)
							want := int64(1 + j%100)
							for q := 0; q < fb.Len(); q++ {
								if g := fb.Sample(q).Tok(); g != tk(want+int64(q)) {
									c.Fail(cs, core.Failf("Alloc/shared/"+tn(t), "after %d allocations in a row, sample %d of allocation #%d reads %d, it was stamped %d: a later allocation shares its storage", k+1, q, j, g, want+int64(q)))
									q = fb.Len()
								}
							}
						}
					}
					c.Eval(1, 1)
				}
			}
			c.Sample(cases[0])
			c.Sample(cases[len(cases)/2])
			c.Sample(cases[len(cases)-1])
			c.Set("rule", "every (element type in 13 built-in + 13 named) x C in {1..9,16,32,64,65,100,255,256,300,1024; 65535, 65536, 65538, 2^17+1 with K <= 3 for three types} x K in {0..8,63,64,65,1000,1025[,4096,20000]} x L (all L<=K for K<=8, else {0,1,K-1,K}), plus all ordered pairs of 10 shapes per type, plus 600 allocations in a row kept alive and re-inspected, plus allocations made right after a buffer of the same total capacity was outgrown by Append while a window of its old storage is kept; a case is non-trivial when K>0 (there is storage to inspect); cases are distinct by construction (each tuple enumerated once)")
			c.Set("types", len(dyn.Types))
			c.Assume("the full capacity is inspected through Slice(0,Capacity), whose own correctness is C02's subject", "linux/amd64 only")
		},
		RunCase: func(c *core.Ctx, raw json.RawMessage) []F { return c13Run(decode[c13Case](raw)) },
	})
}
