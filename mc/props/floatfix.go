package props

import (
	"encoding/json"
	"fmt"
	"math"
	"math/big"
	"math/bits"
	"sort"
	"sync"
	"sync/atomic"

	"verif/mc/core"
	"verif/mc/dyn"
)

// C08 — floating-to-fixed conversion clips, then maps [-1,1] linearly
// (FloatAsSigned / FloatAsUnsigned, 22 instantiations).

type c08Case struct {
	S, D string
	// Bits are IEEE-754 binary64 bit patterns of the inputs (one, or lower+higher for order)
	Bits []uint64
	Ch   []int // channel count of the buffers each value went through
	Pos  []int // interleaved position of each value inside its block
	Len  []int // length of that block
}

// fkey maps a float64 to an integer that preserves order (-0 and +0 both map to 0).
func fkey(f float64) int64 {
	k := int64(math.Float64bits(f))
	if k < 0 {
		k = math.MinInt64 - k
	}
	return k
}

func fromKey(k int64) float64 {
	if k < 0 {
		k = math.MinInt64 - k
	}
	return math.Float64frombits(uint64(k))
}

// mulFloorCeil returns floor(f*FS) and ceil(f*FS) exactly, for |f| < 1, 0 < FS <= 2^63.
func mulFloorCeil(f float64, FS uint64) (fl, ce int64) {
	if f == 0 {
		return 0, 0
	}
	b := math.Float64bits(f)
	neg := b>>63 != 0
	e := int((b >> 52) & 0x7ff)
	m := b & (1<<52 - 1)
	if e == 0 {
		e = 1
	} else {
		m |= 1 << 52
	}
	s := uint(1075 - e) // f = m * 2^-s, s in [53, 1074] for |f| < 1
	hi, lo := bits.Mul64(m, FS)
	// q = floor(P / 2^s), rem = P mod 2^s != 0
	var q uint64
	var rem bool
	switch {
	case s >= 128:
		q, rem = 0, true
	case s >= 64:
		q = hi >> (s - 64)
		rem = lo != 0 || hi&(1<<(s-64)-1) != 0
	default:
		q = hi<<(64-s) | lo>>s
		rem = lo&(1<<s-1) != 0
	}
	if !neg {
		fl = int64(q)
		ce = fl
		if rem {
			ce++
		}
		return
	}
	ce = -int64(q)
	fl = ce
	if rem {
		fl--
	}
	return
}

// c08Oracle judges the result amplitude r for input f and destination depth bd.
func c08Oracle(bd int, f float64, r int64) (kind, msg string) {
	lo, hi := minAmp(bd), maxAmp(bd)
	switch {
	case f >= 1:
		if r != hi {
			return "clip-high", fmt.Sprintf("input %v >= 1 gives amplitude %d, want the highest %d", f, r, hi)
		}
	case f <= -1:
		if r != lo {
			return "clip-low", fmt.Sprintf("input %v <= -1 gives amplitude %d, want the lowest %d", f, r, lo)
		}
	case f == 0:
		if r != 0 {
			return "zero", fmt.Sprintf("input %v gives amplitude %d, want 0", f, r)
		}
	default:
		FS := uint64(hi)
		if f < 0 {
			FS = uint64(hi) + 1
		}
		fl, ce := mulFloorCeil(f, FS)
		if r < ce-1 || r > fl+1 {
			return "accuracy", fmt.Sprintf("input %v x full scale %d lies in [%d,%d] but the amplitude is %d (more than one step away)", f, FS, fl, ce, r)
		}
	}
	return "", ""
}

func c08EvalCase(cs c08Case) (fs []F) {
	s, d := typeByName(cs.S), typeByName(cs.D)
	td := dyn.Types[d]
	out, _ := evalAt(s, d, cs.Bits, cs.Pos, cs.Len, cs.Ch, false)
	name := dyn.ConvName(s, d) + "/" + cs.S + "->" + cs.D
	var res []int64
	for i, b := range cs.Bits {
		f := math.Float64frombits(b)
		r := rawToAmp(td.Kind, td.Bits, out[i])
		res = append(res, r)
		if kind, msg := c08Oracle(td.Bits, f, r); kind != "" {
			fs = append(fs, F{Key: name + "/" + kind, Msg: name + ": " + msg})
		}
	}
	if len(res) == 2 && math.Float64frombits(cs.Bits[0]) <= math.Float64frombits(cs.Bits[1]) && res[0] > res[1] {
		fs = append(fs, F{Key: name + "/order", Msg: fmt.Sprintf("%s: %v -> %d but the larger input %v -> %d", name,
			math.Float64frombits(cs.Bits[0]), res[0], math.Float64frombits(cs.Bits[1]), res[1])})
	}
	return
}

// f32 index spaces -------------------------------------------------------------------------

const f32Inf = 0x7F800000

// all non-NaN float32 values in ascending order: index in [0, 2*(f32Inf+1))
func f32All(i int64) float64 {
	n := int64(f32Inf + 1)
	if i < n {
		return float64(math.Float32frombits(uint32(0x80000000 | uint32(n-1-i))))
	}
	return float64(math.Float32frombits(uint32(i - n)))
}

var f32Fill = [4]uint32{0, 1, 0x800, 0xFFF}

// lattice of all sign/exponent/top-11-mantissa patterns x 4 low-mantissa fillers
const f32LatM = int64(f32Inf>>12)*4 + 1

func f32LatMag(j int64) uint32 {
	if j == f32LatM-1 {
		return f32Inf
	}
	return uint32(j/4)<<12 | f32Fill[j%4]
}

func f32Lattice(i int64) float64 {
	if i < f32LatM {
		return float64(math.Float32frombits(0x80000000 | f32LatMag(f32LatM-1-i)))
	}
	return float64(math.Float32frombits(f32LatMag(i - f32LatM)))
}

// f64 lattice: every (sign, exponent, top 8 mantissa bits) pattern x 4 low-mantissa fillers,
// ascending; index in [0, 2*f64LatM)
var f64Fill = [4]uint64{0, 1, 1 << 43, 1<<44 - 1}

const f64LatM = int64(0x7FF<<8)*4 + 1

func f64LatMag(j int64) uint64 {
	if j == f64LatM-1 {
		return 0x7FF << 52
	}
	return uint64(j/4)<<44 | f64Fill[j%4]
}

func f64Lattice(i int64) float64 {
	if i < f64LatM {
		return math.Float64frombits(1<<63 | f64LatMag(f64LatM-1-i))
	}
	return math.Float64frombits(f64LatMag(i - f64LatM))
}

// c08Alphabet64 is the finite float64 alphabet (sorted keys); f32 restricts it to values
// exactly representable as float32.
var (
	c08AlphaMu    sync.Mutex
	c08AlphaCache = map[[2]int][]int64{}
)

// c08Alphabet64 is memoised: it depends on the destination depth and the source float type only, and
// there are hundreds of instantiations.
func c08Alphabet64(bd int, f32 bool) []int64 {
	k := [2]int{bd, 0}
	if f32 {
		k[1] = 1
	}
	c08AlphaMu.Lock()
	defer c08AlphaMu.Unlock()
	if a, ok := c08AlphaCache[k]; ok {
		return a
	}
	a := c08Alphabet64Compute(bd, f32)
	c08AlphaCache[k] = a
	return a
}

func c08Alphabet64Compute(bd int, f32 bool) []int64 {
	var ks []int64
	add := func(c float64) {
		if math.IsNaN(c) {
			return
		}
		x := c
		for i := 0; i < 4; i++ {
			ks = append(ks, fkey(x))
			x = math.Nextafter(x, math.Inf(1))
		}
		x = c
		for i := 0; i < 4; i++ {
			ks = append(ks, fkey(x))
			x = math.Nextafter(x, math.Inf(-1))
		}
		if f32 {
			y := float32(c)
			for i := 0; i < 4; i++ {
				ks = append(ks, fkey(float64(y)))
				y = math.Nextafter32(y, float32(math.Inf(1)))
			}
			y = float32(c)
			for i := 0; i < 4; i++ {
				ks = append(ks, fkey(float64(y)))
				y = math.Nextafter32(y, float32(math.Inf(-1)))
			}
		}
	}
	both := func(c float64) { add(c); add(-c) }
	both(0)
	both(1)
	both(math.Inf(1))
	both(math.MaxFloat64)
	both(math.MaxFloat32)
	both(math.SmallestNonzeroFloat64)
	both(math.SmallestNonzeroFloat32)
	for k := -70; k <= 70; k++ {
		both(math.Ldexp(1, k))
		both(math.Ldexp(1.5, k))
	}
	for _, m := range []float64{256, 65536, 1 << 31, 1 << 32, 1 << 63, math.Ldexp(1, 64)} {
		for _, q := range []float64{0.5, 1, 1.5, 2, 2.5, 3, 1000.25} {
			both(m * q)
		}
		both(m + 0.5)
		both(m - 0.5)
		both(m + 1)
		both(m - 1)
	}
	for _, v := range []float64{0.1, 0.25, 0.3, 0.5, 0.75, 0.9, 0.99, 0.999999, 1.000001, 1.5, 2, 3, 10, 100, 127, 128, 129, 255, 257, 1e3, 1e6, 1e9, 1e10, 1e18, 1e19, 1e20, 1e38, 1e39, 1e100, 1e300} {
		both(v)
	}
	// every cell border of 8/16-bit destinations, for both full scales; for wider
	// destinations the borders at the boundary alphabet of the depth
	var js []int64
	if bd <= 16 {
		for j := int64(0); j <= int64(1)<<uint(bd-1); j++ {
			js = append(js, j)
		}
	} else {
		for _, j := range boundaryAlphabet(bd) {
			if j >= 0 {
				js = append(js, j)
			}
		}
		js = append(js, int64(1)<<uint(bd-2)) // mid-scale
	}
	p := math.Ldexp(1, bd-1)
	for _, j := range js {
		both(float64(j) / p)
		both(float64(j) / (p - 1))
		both((float64(j) + 0.5) / p)
		both((float64(j) + 0.5) / (p - 1))
	}
	if f32 {
		out := ks[:0]
		for _, k := range ks {
			f := fromKey(k)
			if float64(float32(f)) == f {
				out = append(out, k)
			}
		}
		ks = out
	}
	ks = sortedUnique(ks)
	return ks
}

func c08Run(c *core.Ctx) {
	var evals, distinct atomic.Int64
	inst, exh := 0, 0
	// first use of every instantiation: sequentially, in a fixed order, before anything else converts
	floatToFixed := func(s, d int) bool { return dyn.Types[s].Kind == dyn.Float && dyn.Types[d].Kind != dyn.Float }
	digests := ctxDigests(floatToFixed)
	for _, sd := range instOrder() {
		{
			s, d := sd[0], sd[1]
			ts, td := dyn.Types[s], dyn.Types[d]
			if ts.Kind != dyn.Float || td.Kind == dyn.Float {
				continue
			}
			inst++
			name := dyn.ConvName(s, d) + "/" + ts.Name + "->" + td.Name
			type dom struct {
				name    string
				gen     seqGen
				toF     func(int64) float64
				shards  int
				primary bool
				exh     bool
			}
			var doms []dom
			alpha := c08Alphabet64(td.Bits, isF32(s))
			if ts.Named || td.Named {
				// instantiations with a named type: the alphabet (and the context passes); the value
				// lattices are covered by the built-in instantiation of the same width
				doms = append(doms, dom{"alphabet", genList(alpha), fromKey, 1, true, false})
			} else if isF32(s) {
				if c.Quick() {
					doms = append(doms, dom{"f32-lattice(sign,exponent,top 11 mantissa bits x 4 low fillers)", genRange(0, 2*f32LatM-1), f32Lattice, 16, true, false})
					doms = append(doms, dom{"alphabet", genList(alpha), fromKey, 1, false, false})
				} else {
					doms = append(doms, dom{"every non-NaN float32", genRange(0, 2*(f32Inf+1)-1), f32All, 128, true, true})
				}
			} else {
				doms = append(doms, dom{"alphabet", genList(alpha), fromKey, 1, true, false})
				doms = append(doms, dom{"f64-lattice(sign,exponent,top 8 mantissa bits x 4 low fillers)", genRange(0, 2*f64LatM-1), f64Lattice, 16, false, false})
			}
			allExh := true
			for _, dm := range doms {
				dm := dm
				if !dm.exh {
					allExh = false
				}
				nfail := newFailCap(100)
				newEval := func(ch int) func(in, out []int64) {
					fwd := dyn.ConvBlockCh(s, d, blockN, ch)
					rin := make([]uint64, blockN)
					rout := make([]uint64, blockN)
					return func(in, out []int64) {
						n := len(in)
						for i, k := range in {
							rin[i] = math.Float64bits(dm.toF(k))
						}
						fwd(rin[:n], rout[:n])
						for i := 0; i < n; i++ {
							out[i] = rawToAmp(td.Kind, td.Bits, rout[i])
						}
					}
				}
				point := func(p sweepPos, k, r int64) {
					f := dm.toF(k)
					if kind, _ := c08Oracle(td.Bits, f, r); kind != "" && nfail.ok(kind) {
						chs, pos, lens := posOf(p, false)
						cs := c08Case{ts.Name, td.Name, []uint64{math.Float64bits(f)}, chs, pos, lens}
						fs := c08EvalCase(cs)
						if len(fs) == 0 {
							fs = []F{histDep(name, fmt.Sprintf("%s: failure %s at input %v (channels %d, position %d) seen in the sweep does not reproduce in isolation", name, kind, f, p.Ch, p.Idx))}
						}
						c.Fail(cs, fs...)
					}
				}
				orderFail := func(p sweepPos, pk, po, k, o int64) {
					if nfail.ok("order") {
						chs, pos, lens := posOf(p, true)
						cs := c08Case{ts.Name, td.Name, []uint64{math.Float64bits(dm.toF(pk)), math.Float64bits(dm.toF(k))}, chs, pos, lens}
						fs := c08EvalCase(cs)
						if len(fs) == 0 {
							fs = []F{histDep(name, fmt.Sprintf("%s: order violation seen in the sweep does not reproduce in isolation (%v->%d, %v->%d)", name, dm.toF(pk), po, dm.toF(k), o))}
						}
						c.Fail(cs, fs...)
					}
				}
				var n int64
				if dm.shards == 1 {
					for _, ch := range []int{1, 2, 3} {
						n = runSeq(c, dm.gen, 1, []int{ch}, newEval, point, orderFail)
						evals.Add(n)
					}
				} else {
					n = runSeq(c, dm.gen, dm.shards, []int{2, 1, 3}, newEval, point, orderFail)
					evals.Add(n)
				}
				if dm.primary {
					distinct.Add(n)
				}
				if c.WantSample() {
					c.Sample(map[string]any{"instantiation": name, "domain": dm.name, "values": n})
				}
			}
			if allExh {
				exh++
			}
		}
	}
	c.Set("evaluations", evals.Load())
	c.Set("distinct_nontrivial", distinct.Load())
	c08Judge := func(s, d int, in, out uint64) (string, string) {
		td := dyn.Types[d]
		return c08Oracle(td.Bits, math.Float64frombits(in), rawToAmp(td.Kind, td.Bits, out))
	}
	wait := c.ReverseOrderPassAsync("mc-shim") // a process of its own, meanwhile
	ctxPasses(c, "C08", c08Judge, false, floatToFixed)
	c.Set("ctx_digests", digests)
	c.Set("evaluations", evals.Load()+c.CtxEvals())
	wait()
	c.Set("instantiations", inst)
	c.Set("instantiations_with_exhaustive_source_domain", exh)
	c.Set("exhaustive", exh == inst)
	c.Set("rule", "22 instantiations through the real conversion on real buffers with 1, 2 and 3 channels in blocks (destination pre-filled with garbage), inputs ascending so that 'a larger input never gives a smaller code' is a streaming check; float32 sources: quick = lattice of all 2^20 sign/exponent/top-mantissa patterns x 4 low-mantissa fillers plus the float32-representable alphabet, thorough = every non-NaN float32 bit pattern; float64 sources: the lattice of all sign/exponent/top-8-mantissa patterns x 4 low-mantissa fillers (4.2*10^6 values) and a finite alphabet (+-4 ulp around 0, +-1, +-2^k and 1.5*2^k for k=-70..70, multiples around 256/65536/2^31/2^32/2^63/2^64, +-Inf, MaxFloat, every cell border j/2^(d-1) and j/(2^(d-1)-1) and cell middle for 8/16-bit destinations, boundary borders for wider ones); NaN never generated; plus the context passes (all ordered pairs of 19 special inputs at every lane offset in long buffers with 1-3 channels; a single out-of-range input at each position 0..130 among 200 in-range samples; every ordered pair of instantiations back to back) and the quick sweep again in a fresh process in reverse instantiation order; exact oracle (128-bit integer product m*FS, no floating point); distinct_nontrivial = values of the primary sequence (distinct by construction)")
	c.Assume("float64 inputs are covered by a finite alphabet only", "out-of-range float->int conversion is implementation-defined in Go; the check observes linux/amd64", "NaN excluded by the property")
}

func init() {
	core.Register(&core.Prop{
		ID: "C08", Level: "exploration", Design: "§5 C08",
		Run:    c08Run,
		Worker: core.SweepWorker,
		RunCase: func(c *core.Ctx, raw json.RawMessage) []F {
			if isCtxCase(raw) {
				return ctxReplay(c, raw, func(s, d int, in, out uint64) (string, string) {
					td := dyn.Types[d]
					return c08Oracle(td.Bits, math.Float64frombits(in), rawToAmp(td.Kind, td.Bits, out))
				}, false)
			}
			return c08EvalCase(decode[c08Case](raw))
		},
	})
}

var _ = big.NewInt
var _ = sort.Ints
