#!/usr/bin/env python3
"""Regenerates /verif/MANIFEST.json from the table below (kept in one place so that it stays valid)."""
import json, os, subprocess, sys

V = os.path.dirname(os.path.dirname(os.path.abspath(__file__)))

MC = "model_checking"
EX = "exploration"

# id: (level, engine, technique, text, note)
CHECKS = {
 "C01": (EX, "seqx", "bounded-exhaustive enumeration of shapes x type pairs x input lengths on the real API against a reference model of the interleaved layout (depth-2 histories: write, read back), plus a fixed list of large/wide shapes",
         "Every one of the 169 slice/buffer type pairs and every small shape (C<=4, P<=4 frames: windows, partly filled frames, nil/short/long inputs, every combination of per-channel lengths) is run through the real Write/Read/WriteStriped/ReadStriped and compared cell by cell with the model; what was written is read back with both readers. A sparse list of large shapes (roots of 9..1025 frames, buffers of 2^20+1000 .. 1.4 million frames; 8..70, 256, 300, 1024 channels) straddles size thresholds; a named element type over each built-in type takes part against every built-in type (338 more pairs); caller slices have spare capacity behind their length (and a striped call must leave their headers and the hidden elements alone); shape queries between the construction steps; the built window is compared with the model; long transfers are repeated under GOMAXPROCS 1, 2, 3 and 48. Exhaustive inside the stated bounds, which is what a universally quantified layout property needs and examples cannot give.",
         "small scope: C<=4, P<=4 (thorough 5); large shapes are a finite list; values are integers representable in both types; Slice/AppendSample used to build windows"),
 "C02": (EX, "seqx", "bounded-exhaustive enumeration of (start,end) pairs incl. integer-overflow points over nested slicings against Go's slice rule in unbounded integers; two-way cell-by-cell aliasing; long sequences of live windows",
         "All (start,end) pairs in and out of range, including every integer where channels*index wraps mod 2^64, on every small root and nested to depth 2 (thorough 3), judged by the slice rule in big integers and by two-way aliasing over the child's whole capacity; plus sparse ranges on roots of 17..1200 frames and 9..65 channels, 400 windows of one parent kept alive and re-inspected, small windows of a 1.2-million-sample parent, head/middle/tail windows of parents of more than 2^24 samples, and 2^15..2^18 channels.",
         "small scope: 13 types, C<=4, K<=3 (thorough 4); storage observed through root.Slice(0,K)"),
 "C03": (MC, "seqx", "explicit enumeration of all append histories up to a depth over a source menu, real views in lock-step with a slices reference model; directed multi-destination histories on large storages",
         "Every sequence of up to 2 (thorough 3) appends with sources {independent, self, second header, other windows of the same storage} on every small destination window; after every step all live views and all storages are compared with the model, then every view is stamped to prove sharing/independence. Large roots (8..300 frames) with pairs of appends, directed histories with several growing destinations and surviving views on storages up to 9000 (and 2^15..2^18) frames, and buffers of special values (both zeros, infinities, extremes, integer bounds) appended in place and growing, compared by bit pattern, for all 46 element types of the facade; empty destinations taking over sources of 3..140000 frames; long appends repeated under GOMAXPROCS 1, 2, 3 and 48; large configurations also with 5, 6, 7, 10 and 12 channels.",
         "small scope: 13 types, C<=3, P<=3 (thorough 4); capacity after growth is an environment answer checked only against the stated constraint"),
 "C04": (MC, "seqx", "exhaustive exploration of the Len state machine of one buffer: every history of k AppendSample calls on every shape against the slices model, incl. thousands of calls on long buffers",
         "Every window shape (C<=4, P<=4) and every number of calls from 0 to spare capacity + 40 (thorough + 600), comparing the buffer, a pre-existing alias and the whole parent storage with the model after every call; every channel count 5..70 on short buffers; 16/100/1500-frame storages; nearly full windows of buffers of more than 2^24 samples filled to the end and beyond; every special value appended over a cell holding every other one (bit patterns, 46 element types); windows that outlive their parent across forced garbage collections, then allocations of the same shape; a second header over the same window (parent.Slice(0, Length())) whose appends must not move the parent; per-channel views taken before the calls, which must follow the growing length and read the appended values.",
         "13 types in the small scope; 3-4 types for the long ones"),
 "C05": (EX, "seqx", "bounded-exhaustive enumeration of source/destination window pairs for all 169 instantiations with a differential oracle (same function on a 1x1 buffer, two different destination pre-fills), context passes and a reverse-order process",
         "All 169 instantiations, every pair of small source/destination windows (shorter/equal/longer, partly filled frames; large and many-channel shapes sparsely) with a boundary value alphabet: result k must equal the single-sample result whatever the destination held, everything outside the common prefix untouched, return = min per-channel length. 'Depends only on sample k and the two formats' is additionally checked against neighbours, alignment, tail position, the instantiation used before (all 169^2 ordered pairs) the order of use in the process (second process in reverse order), and in buffers of 2^20+3, 2^22+7 and 2^24+5 samples ending in a partly filled frame; named element types over all 13 built-in types take part; sources built by other routes (filled through windows only, recycled by a pool, previously a conversion's destination), a NaN among the neighbours, buffers holding one value throughout, source or destination 37 frames longer, destinations already holding +0 / -0, and long conversions under GOMAXPROCS 1, 2, 3 and 48.",
         "small scope: C<=3, P<=3 (thorough 4); value meaning delegated to C06-C09"),
 "C06": (EX, "sweepx", "exhaustive sweep of the sample-value domain through the real batch API (1-3 channel buffers, garbage-prefilled destination) with an exact integer oracle and streaming monotonicity; context passes; reverse-order process",
         "All 121 fixed-point instantiations (and, in the context passes, those with a named type over each built-in type on one side; buffers up to 2^24+5 samples; sources of unusual provenance; uneven lengths; GOMAXPROCS 1, 2, 3 and 48); every value of 8/16-bit sources, every value of 32-bit sources in the thorough tier (alphabet, lattice and cell end points in quick), alphabets + lattices for 64-bit sources; order preservation on the ascending sweep, reference levels exactly, equal inputs give equal outputs in every neighbourhood/alignment/history arrangement.",
         "64-bit sources by alphabet and lattice only; linux/amd64"),
 "C07": (EX, "sweepx", "exhaustive sweep of the sample-value domain with an exact integer oracle and widening/narrowing round trips through the real functions; context passes; reverse-order process",
         "Same domains as C06; narrowing must land between floor and ceil of amplitude/2^k, same depth must be the identity, every widening followed by the narrowing back must return the original code; pointwise oracle also on the context arrangements (named types, buffers up to 2^24+5 samples, sources of unusual provenance, uneven lengths, GOMAXPROCS 1, 2, 3 and 48 included).",
         "64-bit sources by alphabet and lattice only; linux/amd64"),
 "C08": (EX, "sweepx", "exhaustive sweep of float32 bit patterns (thorough) / lattices + alphabet (quick) with an exact 128-bit oracle; context passes incl. single out-of-range values at every alignment",
         "All 22 float->fixed instantiations; every non-NaN float32 in the thorough tier, lattices of all sign/exponent/top-mantissa patterns for float32 and float64 plus a boundary alphabet; clipping, zero, one-step accuracy (exact integer arithmetic) and monotonicity on the ascending sweep; the same pointwise oracle on neighbour/outlier/tail/adjacency arrangements, with named types, in buffers up to 2^24+5 samples, with a NaN among the neighbours, with sources of unusual provenance, uneven lengths and under GOMAXPROCS 1, 2, 3 and 48.",
         "float64 inputs by finite alphabet/lattice only; out-of-range float->int is implementation-defined, observed on linux/amd64"),
 "C09": (EX, "sweepx", "exhaustive sweep of fixed-point codes through fixed->float and the real inverse, streaming strict monotonicity; context passes; reverse-order process",
         "All 22 fixed->float instantiations; every 8/16-bit code (8-bit domains repeated to fill long buffers), every 32-bit code in the thorough tier; range, reference levels, accuracy, (strict) order and the round trip through the real FloatAsSigned/FloatAsUnsigned. Context passes with named types, buffers up to 2^24+5 samples, sources of unusual provenance, uneven lengths, GOMAXPROCS 1, 2, 3 and 48. Known findings are keyed by explicit code ranges.",
         "64-bit sources by alphabet/lattice only; accuracy tolerance reads 'float rounding' relative to full scale"),
 "C10": (MC, "seqx", "explicit-state breadth-first search over get/use/put histories on the real PoolAllocator, sync.Pool replaced by a controlled shim whose answers are choice points; conformance re-run on the real sync.Pool; long linear histories",
         "Every history up to depth 5 (13 types) / 6 (3 types) [thorough 6 / 9] over {get with every pool answer, appendSample, growing append, stamp whole capacity, set first/at-length/last, reslice from frame 0, put, copy the allocator value (then Get/Put alternate between copy and original)} with up to 3 buffers outstanding on 7 small allocator shapes and 4 long ones; every Get is judged for shape, bit depth, zero over the whole capacity, distinct handle and disjoint storage. States are deduplicated by a canonical model key that keeps what pooled items held; 300-round linear histories without deduplication (with forced garbage collections) drive state the implementation might keep across calls; pools of up to 90000 samples; negative-zero stamps over the whole capacity (freshness is judged by bit pattern); short directed histories for all 46 element types and for pools of 255..65538 channels.",
         "sync.Pool is over-approximated by the shim (any pooled item or New); histories of two element types are re-run on the real sync.Pool; use-after-put / double-put excluded by the property"),
 "C11": (MC, "schedx", "stateless schedule exploration (all interleavings with state-key pruning / preemption-bounded) of real goroutines under a race-detector-invisible baton; scheduling points at harness steps, pool, mutex, WaitGroup and sync/atomic operations and at the library's own go statements (which become threads of the explorer); pool answers as choice points; Go race detector as happens-before monitor on each explored schedule",
         "G goroutines x M get/check/stamp/verify/put cycles on one PoolAllocator (shared by pointer and as copies, copied before or after a warm-up Put; 2-4-sample and 1024-5000-sample buffers, one of 2^21+5 samples; configurations in which holders keep only a window of their buffer and force a garbage collection while holding it, or put back a shorter window; float holders also write -0.0; the library is told GOMAXPROCS=4 of 16 CPUs): all interleavings for (2,1),(2,2),(3,1) [thorough also (3,2),(4,1)], deviation bound 2 above; oracles: exclusive ownership (identity and stamps), freshness, and no data race (bounded pass in the -race build; a racy canary proves the monitor live).",
         "interleaving at scheduling points (harness steps, every shim operation incl. atomics and WaitGroup, go statements, after Put); goroutines of the library are explorer threads while the rewrite of its go statements compiles and nothing blocks outside sync primitives, else they run outside the explorer (reported on stderr); finer-grained conflicts are the race monitor's job; the shim provides only Put(x) happens-before the Get returning x; GOMAXPROCS=1 by construction"),
 "C12": (MC, "seqx", "explicit-state breadth-first search over view histories (replay on fresh real buffers + one operation), states deduplicated by a canonical key of the slices reference model; long linear and directed large-storage histories",
         "Every history up to depth 5 (small shapes) / 3 (full alphabet: capacity <= 4 frames, <= 6 views, 3 channels) / 4 (40-frame buffers, sparse ranges) [thorough 6-7 / 4 / 5] over {alloc, slice, append incl. self, appendSample, write, set}; after every transition every live view and every storage is compared with the model. 400-step linear histories and directed histories on storages up to 9000 frames (growth with surviving views, recycled blocks, tail windows) run without deduplication; every special value (both zeros, NaN, infinities, bounds) written with SetSample over a cell holding every other one, compared by bit pattern through every view.",
         "values are tokens (data-independence re-checked without value canonicalisation); growth capacity is an environment answer; Append onto a partly filled last frame is outside every property's domain"),
 "C13": (EX, "seqx", "bounded-exhaustive enumeration of allocator shapes x 46 element types (13 built-in, 13 named, 13 further named ones that share one name, 7 whose names end in misleading digits), ordered pairs of allocations and a long run of live allocations",
         "Every (C,L,K) of the stated grid (C up to 1024, K up to 1025, thorough 20000; 65535 .. 2^17+1 channels with K <= 3) for the 13 built-in and 33 named element types; shape, zeroed capacity, bit depth, independence of every ordered pair of 10 shapes, 600 allocations in a row that are kept alive and re-inspected, and windows kept across forced garbage collections while their parents are dropped, followed by allocations of the same shape.",
         "grid, not every size"),
 "C14": (EX, "seqx", "bounded-exhaustive enumeration of parents x channels x indices with whole-storage diff; every per-channel length 0..70000 for the shape methods; views used after 1..700 appends to the parent",
         "Every channel of every small parent (whole buffers, windows, partly filled last frames; up to 8 channels, plus 9/17/65 channels and 1100-frame windows): read, BufferIndex (with the view's own and with foreign channel numbers), write (whole storage diffed), read back; special values through every view by bit pattern; the view's Length/Capacity/Channels for every length up to 70000; a view taken once and used after each of 700 appends; windows of 2^24-3 .. 2^24+45 samples for every channel count 1..8 and (thorough) parents of 2^31+19 samples: shape and reads/writes/positions at the ends and around 2^24/C, 2^31/C.",
         "13 types in the small scope, 3 for the long ones"),
 "C15": (EX, "seqx", "exhaustive enumeration of mismatching shapes for the 13 guarded entry points with before/after snapshots (pool observed through the sync shim)",
         "All 169 conversion instantiations and striped I/O pairs, Append and Put for 13 types, every pair of different channel counts 1..4 (and (9,10), (64,65), (1,100); 1100-frame operands) / slice counts 0..5 (surplus slices also empty or nil) / total capacities, the zero value of the buffer type as receiver of Append, foreign buffers of up to 128 MiB offered to a 16-sample pool, 70000-frame operands, caller slices with spare capacity; the call must panic and nothing (buffers, caller slices, pool free list) may differ from the snapshot.",
         "pool contents observed through the overlay-injected sync.Pool shim"),
 "C16": (EX, "sweepx", "exhaustive over the 64 depths x boundary alphabets, lattices and every value in [-2^17,2^17] for depths<=16, math/big oracle; fresh processes for the order of first use and for every (function, depth) as the very first library call",
         "All 64 depths; bounds, clipping (identity in range, nearest bound outside, idempotent, monotone) and Scale for all 2080 depth pairs x 11 built-in integer types and a named type over each, where representable; several hundred fresh processes that first touch a few depths (also outside 1..64) and then check every depth, and 384 whose first library call is one given function at one depth.",
         "64-bit arguments outside the alphabet/lattice not covered"),
 "C17": (EX, "sweepx", "bounded-exhaustive sweep of (rate, count/duration) windows incl. all rounding ties and the overflow boundaries of the intermediate products, exact 128-bit integer oracle (1/8 Hz lattice) and exact rational oracle (rates next to whole ones at every decimal and binary scale)",
         "Standard rates, every integer rate 1..10^6, the 1/8 Hz lattice, and r +- 10^-k, r(1 +- 2^-k), r/1.001 ... for 12 whole rates; dense count windows, the 24 h edge, neighbourhoods of every rounding tie and of every argument where d*f or n*10^9 crosses 2^31..2^64; half-unit accuracy, monotonicity and the count->duration->count round trip.",
         "continuum domain: bounded windows only (exhaustive:false)"),
 "C18": (EX, "seqx", "exhaustive enumeration of operation x instantiation x branch-selecting shape with an allocation monitor (testing.AllocsPerRun) evaluated on every configuration",
         "Every steady-state operation for 13 types / 169 pairs x C in {1,2,8} x lengths {0,1,64,1100[,4096]} x plain/window x slice-length class, pools up to 8x4096 and 1x20000 samples for every shape (through a pointer and through by-value copies) and of 160000 .. 2^24+5 samples (up to 128 MiB) in addition; same-type conversions also in place and between overlapping windows; the append that fills the capacity exactly; the very first AppendSample on a fresh full buffer counted without warm-up; per-channel views of a buffer with a partly filled last frame; 0 allocations required (Slice <= 1); a non-zero reading is re-measured 5x (minimum).",
         "plain build (no overlay): unmodified package and real sync.Pool; allocation sites are static so instantiation x branch enumeration covers them; sizes are a finite list"),
 "C19": (MC, "schedx", "stateless schedule exploration of readers and disjoint-window writers at operation granularity (all interleavings with state-key pruning), differential oracle against the sequential schedule, Go race detector as happens-before monitor",
         "R readers running every read-only entry point and W writers confined to their own Slice over one shared buffer (6 frames; also a partly filled last frame, 9 channels, 600 frames): all interleavings for (R,W) in {(2,0),(3,0),(1,1),(2,2),(1,2)} [thorough + (4,0),(3,2),(0,3),(2,3)]; every thread's observations and the final contents must equal the sequential run; writers pass more data than their window holds and share one striped input table; shared sources hold negative values and a NaN too; readers slice across the partly filled last frame; buffers that were grown by Append before being shared; all instantiations with two concurrent conversions (one destination a frame shorter) (6, 600 frames; 70000 samples for one instantiation per function with the library told GOMAXPROCS=2 of 16, its goroutines being explorer threads); bounded pass in the -race build reports conflicting accesses.",
         "operation granularity is sufficient only together with the race monitor (conflict-free operations are both-movers); 3-4 element types"),
 "C20": (EX, "seqx", "exhaustive enumeration of degenerate allocators x every exported operation",
         "Every allocator with a zero among Channels/Length/Capacity (values 0..3; plus 9/65 channels and 1100/5000-frame capacities) for 13 types through every exported function and method that has a valid argument there, incl. all 169 conversions on every degenerate shape, appends of empty buffers with capacities up to 2^25+1 samples, a zero-capacity pool whose first buffer is appended to and kept while a second is taken, zero-length windows of a non-empty buffer converted from, into and with that buffer, zero-channel allocators with Length > Capacity, and ChannelLength with 0 channels.",
         "Sample/SetSample have no valid index and are not called"),
}

NOT_YET = {
 "C10": "check not built yet (planned: explicit-state exploration of get/use/put histories over the sync.Pool shim)",
 "C11": "check not built yet (planned: schedule exploration with the baton scheduler and race monitor)",
 "C12": "check not built yet (planned: breadth-first search over view histories against the slices model)",
 "C18": "check not built yet (planned: allocation monitor over every enumerated configuration)",
 "C19": "check not built yet (planned: schedule exploration of readers/writers with the race monitor)",
}

def main():
    # anything present in CHECKS is claimed; the rest not_applicable with its reason
    checks = []
    for pid in sorted(CHECKS):
        lvl, eng, tech, text, note = CHECKS[pid]
        checks.append({
            "property_id": pid,
            "quick_cmd": f"./check {pid} --tier quick",
            "thorough_cmd": f"./check {pid} --tier thorough",
            "evidence_file": f"/verif/evidence/{pid}.json",
            "replay_cmd_template": f"./check {pid} --replay {{path}}",
            "engine": eng,
            "level_claimed": {"category": lvl, "text": text, "design_ref": f"DESIGN.md §5 {pid}"},
            "level_note": note,
            "technique": tech,
        })
    na = [{"property_id": k, "reason": v} for k, v in sorted(NOT_YET.items()) if k not in CHECKS]
    m = {
        "version": 1,
        "setup_cmd": "./check setup",
        "hooks": {
            "guard": "verif",
            "enable": "go build -tags verif -overlay /verif/.build/overlay.json (the overlay, regenerated from /repo's working tree by every check, rewrites the imports \"sync\" and \"sync/atomic\" of /repo's non-test files to the controlled shims verif/mc/shim/vsync.go and verif/mc/shimatomic/vatomic.go turns the library's go statements into calls of the shim and redirects runtime.GOMAXPROCS / runtime.NumCPU to it; no file of /repo carries the tag and /repo is never modified on disk)",
            "baseline_off_cmd": "cd /repo && GOFLAGS=-mod=mod GOPROXY=off GOSUMDB=off GOTOOLCHAIN=local go test -json -vet=off -count=1 -timeout 25m ./...",
            "source_commits": [],
            "add_only": True,
        },
        "engines": [
            {"name": "seqx", "path": "mc/props (world.go, model.go) + mc/core", "serves_properties": ["C01","C02","C03","C04","C05","C10","C12","C13","C14","C15","C18","C20"], "kind_free_text": "explicit-state / bounded-exhaustive exploration of operation histories on the real objects in lock-step with a reference model"},
            {"name": "schedx", "path": "mc/schedx", "serves_properties": ["C11","C19"], "kind_free_text": "stateless deviation-bounded schedule explorer (CHESS style) over real goroutines (harness threads and goroutines the library starts) serialised by a race-detector-invisible baton; the Go race detector acts as happens-before monitor"},
            {"name": "sweepx", "path": "mc/props/sweep.go", "serves_properties": ["C06","C07","C08","C09","C16","C17"], "kind_free_text": "exhaustive sweeps of value domains through the real batch API with exact oracles"},
        ],
        "checks": checks,
        "not_applicable": na,
        "notes": "All checks rebuild the harness against /repo's working tree (replace directive) on every invocation. Known findings: /verif/KNOWN_FINDINGS.txt. Seeded property-breaking changes used to validate detection: /verif/seeded/.",
    }
    json.dump(m, open(os.path.join(V, "MANIFEST.json"), "w"), indent=1)
    print("MANIFEST.json written:", len(checks), "checks,", len(na), "not_applicable")

if __name__ == "__main__":
    main()
