package props

import (
	"fmt"
	"verif/mc/core"
	"verif/mc/dyn"
	"verif/mc/schedx"
)

func init() {
	core.RegisterSelfTest("schedx: interleaving counts, preemption bounds, lost update, replay", schedx.SelfTest)
	if core.RaceEnabled {
		core.RegisterSelfTest("race monitor: racy canary reported, adjacent cells and atomically ordered accesses not", raceCanary)
	}
}

// Key-soundness self-test for the explicit-state searches: states that the canonical key
// merges must have the same futures.  For a small configuration every state keeps two
// representative paths (the first two that reached it); the multiset of successor keys of
// both must be equal at every level.  (An unsound key — e.g. one that renames the value 0 —
// fails this.)
func keySoundnessC12() error {
	cfg := c12Cfg{"selftest", dyn.Int16, 2, 2, 3, 4, true, false}
	type rep struct{ a, b []wop }
	frontier := map[[16]byte]*rep{}
	w0 := newWorld(cfg.t, cfg.C)
	k0, _ := c12Key(w0, true)
	frontier[k0] = &rep{a: []wop{}}
	succ := func(path []wop) (map[[16]byte]int, map[[16]byte][]wop, error) {
		cs := c12Case{T: tn(cfg.t), C: cfg.C, Ops: path}
		w, fs := c12Replay(cs, len(path)+1)
		if len(fs) > 0 {
			return nil, nil, fmt.Errorf("replay failed: %s", fs[0].Msg)
		}
		keys := map[[16]byte]int{}
		paths := map[[16]byte][]wop{}
		for _, o := range c12Ops(w, cfg) {
			np := append(append([]wop{}, path...), o)
			w2, fs := c12Replay(c12Case{T: tn(cfg.t), C: cfg.C, Ops: np}, len(np))
			if len(fs) > 0 {
				return nil, nil, fmt.Errorf("op failed on the unchanged tree: %s", fs[0].Msg)
			}
			k, _ := c12Key(w2, true)
			keys[k]++
			paths[k] = np
		}
		return keys, paths, nil
	}
	for d := 0; d < cfg.depth; d++ {
		next := map[[16]byte]*rep{}
		for _, r := range frontier {
			ka, pa, err := succ(r.a)
			if err != nil {
				return err
			}
			if r.b != nil {
				kb, _, err := succ(r.b)
				if err != nil {
					return err
				}
				if len(ka) != len(kb) {
					return fmt.Errorf("C12 key unsound: histories %v and %v share a key but have %d vs %d distinct successors", r.a, r.b, len(ka), len(kb))
				}
				for k, n := range ka {
					if kb[k] != n {
						return fmt.Errorf("C12 key unsound: histories %v and %v share a key but differ in their successors", r.a, r.b)
					}
				}
			}
			for k, p := range pa {
				if e, ok := next[k]; !ok {
					next[k] = &rep{a: p}
				} else if e.b == nil && fmt.Sprint(e.a) != fmt.Sprint(p) {
					e.b = p
				}
			}
		}
		frontier = next
	}
	return nil
}

func init() {
	core.RegisterSelfTest("seqx: states merged by the C12 canonical key have equal successor sets (two representatives per state, depth 4)", keySoundnessC12)
}
