package props

import (
	"encoding/json"
	"fmt"
	"runtime"

	"verif/mc/core"
	"verif/mc/dyn"
)

// C14 — a channel view addresses exactly its channel of the parent buffer.

type c14Case struct {
	Type       string `json:"type"`
	C, P, S, L int    // root of P frames (full length); parent = root.Slice(S, S+L) (or the root itself when Whole)
	Whole      bool
	Chan       int
	R          int // samples appended to the window afterwards (partly filled last frame)
	// Huge: parents of more than 2^24 (2^31) samples: shape, and positions / reads / writes at a sparse
	// set of indices (first, last, around 2^24/C, 2^31/C and 2^32/C), without the cell-by-cell model
	Huge bool `json:"huge,omitempty"`
	// ValPass: special sample values (both zeros, tiny and huge magnitudes, infinities, integer bounds)
	// read and written through the view of channel Chan, compared by bit pattern
	ValPass bool `json:"val_pass,omitempty"`
	// Pooled: c14Pooled(Type, C, L, P): views of a recycled pool buffer (only these four fields matter)
	Pooled bool `json:"pooled,omitempty"`
}

func c14Run(cs c14Case) []F {
	return core.Guard("Channel", func() []F { return c14RunRaw(cs) })
}

// c14HugeRun: root of P frames, window [0, L) plus R samples, view of channel Chan.
func c14HugeRun(cs c14Case, root dyn.Buf) (fs []F) {
	t := typeByName(cs.Type)
	fail := func(kind, format string, a ...any) {
		fs = append(fs, core.Failf("Channel/"+kind, "Alloc[%s](C=%d,L=K=%d).Slice(0,%d) + %d samples, channel %d: %s", cs.Type, cs.C, cs.P, cs.L, cs.R, cs.Chan, fmt.Sprintf(format, a...)))
	}
	if root == nil {
		root = dyn.Alloc(t, al(cs.C, cs.P, cs.P))
	}
	w := root.Slice(0, cs.L)
	for k := 0; k < cs.R; k++ {
		w.AppendSample(dyn.Tok(t, 0))
	}
	plen := cs.C*cs.L + cs.R
	wantLen := ceilDiv(plen, cs.C)
	ch := w.Channel(cs.Chan)
	if g, pl := ch.Length(), w.Length(); g != wantLen || pl != wantLen {
		fail("shape", "Length() = %d, parent %d, want %d (%d samples)", g, pl, wantLen, plen)
	}
	if g, pc := ch.Capacity(), w.Capacity(); g != cs.P || pc != cs.P {
		fail("shape", "Capacity() = %d, parent %d, want %d", g, pc, cs.P)
	}
	if g := ch.Channels(); g != 1 {
		fail("shape", "Channels() = %d, want 1", g)
	}
	idx := map[int]bool{}
	for _, centre := range []int{0, wantLen - 1, (1 << 24) / cs.C, (1 << 31) / cs.C, (1 << 32) / cs.C, wantLen / 2} {
		for d := -2; d <= 2; d++ {
			if i := centre + d; i >= 0 && i < wantLen && cs.C*i+cs.Chan < plen {
				idx[i] = true
			}
		}
	}
	tok := int64(1)
	for i := range idx {
		pos := cs.C*i + cs.Chan
		if g := ch.BufferIndex(cs.Chan, i); g != pos {
			fail("bufferindex", "view.BufferIndex(%d,%d) = %d, want %d", cs.Chan, i, g, pos)
		}
		if g := w.BufferIndex(cs.Chan, i); g != pos {
			fail("bufferindex", "parent.BufferIndex(%d,%d) = %d, want %d", cs.Chan, i, g, pos)
		}
		tok = tk(tok + 1)
		if p, msg := dyn.Try(func() { ch.SetSample(i, dyn.Tok(t, tok)) }); p {
			fail("set-panic", "SetSample(%d) panicked: %s", i, msg)
			continue
		}
		if g := root.Sample(pos).Tok(); g != tok {
			fail("set", "SetSample(%d, %d) through the view: the parent's sample %d reads %d", i, tok, pos, g)
		}
		for _, nb := range []int{pos - 1, pos + 1} {
			if nb >= 0 && nb < plen && !idx[nb/cs.C] {
				if g := root.Sample(nb).Tok(); g != 0 {
					fail("set", "SetSample(%d) through the view changed the neighbouring sample %d to %d", i, nb, g)
				}
			}
		}
		tok = tk(tok + 1)
		root.SetSample(pos, dyn.Tok(t, tok))
		var got dyn.Val
		if p, msg := dyn.Try(func() { got = ch.Sample(i) }); p {
			fail("sample-panic", "Sample(%d) panicked: %s", i, msg)
		} else if got.Tok() != tok {
			fail("sample", "Sample(%d) reads %d, want the parent's sample %d = %d", i, got.Tok(), pos, tok)
		}
		root.SetSample(pos, dyn.Tok(t, 0))
	}
	return
}

// c14Values: every special value of the element type is written into the parent and read through
// the view, and written through the view and read from the parent.
func c14Values(cs c14Case) (fs []F) {
	t := typeByName(cs.Type)
	sp := valSpecials(t)
	parent := dyn.Alloc(t, al(cs.C, len(sp), len(sp)))
	ch := parent.Channel(cs.Chan)
	for i, v := range sp {
		pos := cs.C*i + cs.Chan
		parent.SetSample(pos, v)
		if g := ch.Sample(i); !valSame(g, v) {
			return append(fs, core.Failf("Channel/value", "%s C=%d channel %d: the parent's sample %d holds %v (bits %#x), the view reads %v (bits %#x) at index %d", cs.Type, cs.C, cs.Chan, pos, v, v.B, g, g.B, i))
		}
		w := sp[(i+1)%len(sp)]
		ch.SetSample(i, w)
		if g := parent.Sample(pos); !valSame(g, w) {
			return append(fs, core.Failf("Channel/value", "%s C=%d channel %d: SetSample(%d, %v) through the view (bits %#x): the parent's sample %d reads %v (bits %#x)", cs.Type, cs.C, cs.Chan, i, w, w.B, pos, g, g.B))
		}
		if g := ch.Sample(i); !valSame(g, w) {
			return append(fs, core.Failf("Channel/value", "%s C=%d channel %d: SetSample(%d, %v) then Sample(%d) through the view reads %v (bits %#x, want %#x)", cs.Type, cs.C, cs.Chan, i, w, i, g, g.B, w.B))
		}
	}
	return
}

func c14RunRaw(cs c14Case) (fs []F) {
	if cs.Pooled {
		return c14Pooled(typeByName(cs.Type), cs.C, cs.L, cs.P)
	}
	if cs.Huge {
		return c14HugeRun(cs, nil)
	}
	if cs.ValPass {
		return c14Values(cs)
	}
	t := typeByName(cs.Type)
	fail := func(kind, format string, a ...any) {
		fs = append(fs, core.Failf("Channel/"+kind, "Alloc[%s](C=%d,L=K=%d) window [%d,%d) whole=%v channel %d: %s", cs.Type, cs.C, cs.P, cs.S, cs.S+cs.L, cs.Whole, cs.Chan, fmt.Sprintf(format, a...)))
	}
	root := dyn.Alloc(t, al(cs.C, cs.P, cs.P))
	st := newStore(cs.C * cs.P)
	for i := range st.cells {
		st.cells[i] = tk(int64(i + 1))
	}
	for i, x := range st.cells {
		root.SetSample(i, dyn.Tok(t, x))
	}
	parent := root
	if !cs.Whole {
		parent = root.Slice(cs.S, cs.S+cs.L)
	}
	off := cs.C * cs.S
	for k := 0; k < cs.R; k++ {
		parent.AppendSample(dyn.Tok(t, st.cells[off+cs.C*cs.L+k])) // rewrites the value already there
	}
	plen := cs.C*cs.L + cs.R
	wantLen := ceilDiv(plen, cs.C)
	var ch dyn.Chan
	if p, msg := dyn.Try(func() { ch = parent.Channel(cs.Chan) }); p {
		fail("panic", "Channel panicked: %s", msg)
		return
	}
	if g := ch.Channels(); g != 1 {
		fail("shape", "Channels() = %d, want 1", g)
	}
	if g, w := ch.Length(), parent.Length(); g != w || g != wantLen {
		fail("shape", "Length() = %d, parent %d, model %d", g, w, wantLen)
	}
	if g, w := ch.Capacity(), parent.Capacity(); g != w || g != cs.P-cs.S {
		fail("shape", "Capacity() = %d, parent %d, model %d", g, w, cs.P-cs.S)
	}
	tok := tk(int64(len(st.cells) + 1))
	for i := 0; i < wantLen; i++ {
		pos := cs.C*i + cs.Chan // the model's interleaved position inside the parent
		if pos >= plen {
			continue // the last frame is partly filled and does not hold this channel's sample
		}
		var got dyn.Val
		if p, msg := dyn.Try(func() { got = ch.Sample(i) }); p {
			fail("sample-panic", "Sample(%d) panicked: %s", i, msg)
		} else if got.Tok() != st.cells[off+pos] {
			fail("sample", "Sample(%d) reads %d, want the parent's sample %d of channel %d = %d", i, got.Tok(), i, cs.Chan, st.cells[off+pos])
		}
		// (the view is bound to its channel: whatever channel number is passed, the position is that of (c, i))
		for _, arg := range []int{cs.Chan, 0, cs.C - 1, (cs.Chan + 1) % cs.C} {
			if g := ch.BufferIndex(arg, i); g != pos {
				fail("bufferindex", "view.BufferIndex(%d,%d) = %d, want %d: the interleaved position of sample %d of the view's own channel %d", arg, i, g, pos, i, cs.Chan)
				break
			}
		}
		if p, msg := dyn.Try(func() { ch.SetSample(i, dyn.Tok(t, tok)) }); p {
			fail("set-panic", "SetSample(%d) panicked: %s", i, msg)
			continue
		}
		st.cells[off+pos] = tok
		if d := cmpStore(root, st); d != "" {
			fail("set", "after SetSample(%d): %s", i, d)
			st.cells = toks(root)
		}
		if p, _ := dyn.Try(func() { got = ch.Sample(i) }); !p && got.Tok() != tok {
			fail("readback", "SetSample(%d,%d) then Sample(%d) reads %d", i, tok, i, got.Tok())
		}
		// the same value stored through the view once more after the sample was overwritten another way
		if p, _ := dyn.Try(func() { root.SetSample(off+pos, dyn.Tok(t, tk(tok+1))); ch.SetSample(i, dyn.Tok(t, tok)) }); !p {
			if g := root.Sample(off + pos).Tok(); g != tok {
				fail("set", "SetSample(%d,%d) through the view, the sample overwritten through the parent storage, SetSample(%d,%d) through the view again: the sample reads %d", i, tok, i, tok, g)
			}
		}
		tok = tk(tok + 2)
	}
	if len(fs) > 0 || cs.Chan != 0 {
		return
	}
	// all views of the parent read in turn, frame by frame (one sample from each view, then the next frame)
	views := make([]dyn.Chan, cs.C)
	for c := range views {
		views[c] = parent.Channel(c)
	}
	for i := 0; i < wantLen; i++ {
		for c, v := range views {
			pos := cs.C*i + c
			if pos >= plen {
				continue
			}
			var got dyn.Val
			if p, msg := dyn.Try(func() { got = v.Sample(i) }); p {
				fail("sample-panic", "reading the views of all channels in turn: Sample(%d) of channel %d panicked: %s", i, c, msg)
				return
			} else if got.Tok() != st.cells[off+pos] {
				fail("sample", "reading the views of all channels in turn, frame by frame: Sample(%d) of the view of channel %d reads %d, the parent holds %d there", i, c, got.Tok(), st.cells[off+pos])
				return
			}
		}
	}
	return
}

// c14Pooled: views of a pool buffer that was grown to its capacity by its previous holder and recycled.
func c14Pooled(t, C, L, K int) (fs []F) {
	pool := dyn.NewPool(t, al(C, L, K))
	for round := 0; round < 3; round++ {
		b := pool.Get()
		for c := 0; c < C; c++ {
			v := b.Channel(c)
			if g, w := v.Length(), b.Length(); g != w || g != L || v.Capacity() != K {
				return append(fs, core.Failf("Channel/shape", "PoolAlloc[%s](C=%d,L=%d,K=%d), round %d (the previous holder filled the buffer to its capacity before putting it back): the view of channel %d has Length %d Capacity %d, the buffer Length %d Capacity %d", tn(t), C, L, K, round, c, g, v.Capacity(), w, b.Capacity()))
			}
		}
		for i := b.Len(); i < b.Cap(); i++ {
			b.AppendSample(dyn.Tok(t, tk(int64(i+1))))
		}
		pool.Put(b)
	}
	return
}

func init() {
	core.Register(&core.Prop{
		ID: "C14", Level: "exploration", Design: "§5 C14",
		Run: func(c *core.Ctx) {
			for _, t := range []int{dyn.Int8, dyn.Int32, dyn.Float64} {
				for _, sh := range [][3]int{{1, 2, 4}, {2, 2, 4}, {3, 0, 2}, {2, 1, 5}} {
					fs := core.Guard("Channel", func() []F { return c14Pooled(t, sh[0], sh[1], sh[2]) })
					c.Check(c14Case{Type: tn(t), C: sh[0], P: sh[2], L: sh[1], Pooled: true}, true, fs)
				}
			}
			var cases []c14Case
			for t := 0; t < dyn.NB; t++ {
				for C := 1; C <= 8; C++ {
					for S := 0; S <= 2; S++ {
						for L := 0; L <= 3; L++ {
							for extra := 0; extra <= 1; extra++ {
								for ch := 0; ch < C; ch++ {
									cases = append(cases, c14Case{Type: tn(t), C: C, P: S + L + extra, S: S, L: L, Chan: ch})
									if extra == 1 {
										for r := 1; r < C; r++ {
											cases = append(cases, c14Case{Type: tn(t), C: C, P: S + L + extra, S: S, L: L, Chan: ch, R: r})
										}
									}
								}
							}
						}
					}
					for L := 0; L <= 3; L++ {
						for ch := 0; ch < C; ch++ {
							cases = append(cases, c14Case{Type: tn(t), C: C, P: L, L: L, Whole: true, Chan: ch})
						}
					}
					// long parents
					if L := 96 / C; C <= 4 {
						for ch := 0; ch < C; ch++ {
							cases = append(cases, c14Case{Type: tn(t), C: C, P: L, L: L, Whole: true, Chan: ch})
							cases = append(cases, c14Case{Type: tn(t), C: C, P: L, S: 1, L: L - 2, Chan: ch})
						}
					}
				}
			}
			for _, t := range []int{dyn.Int8, dyn.Uint16, dyn.Float64} { // many channels; long parents
				for _, C := range []int{9, 17, 65, 256, 300} {
					for ch := 0; ch < C; ch += 1 + C/70 {
						cases = append(cases, c14Case{Type: tn(t), C: C, P: 3, S: 1, L: 2, Chan: ch})
						cases = append(cases, c14Case{Type: tn(t), C: C, P: 3, S: 0, L: 2, Chan: ch, R: C / 2})
					}
				}
				for _, C := range []int{1, 2, 3} {
					for ch := 0; ch < C; ch++ {
						cases = append(cases, c14Case{Type: tn(t), C: C, P: 1200, S: 50, L: 1100, Chan: ch})
					}
				}
			}
			for _, t := range valTypes() { // special values through the view, by bit pattern
				for _, C := range []int{1, 2, 3} {
					for ch := 0; ch < C; ch++ {
						cases = append(cases, c14Case{Type: tn(t), C: C, Chan: ch, L: 1, ValPass: true})
					}
				}
			}
			c.ParallelFor(len(cases), func(i int) {
				c.Check(cases[i], cases[i].L > 0 || cases[i].R > 0, c14Run(cases[i]))
			})
			// every per-channel length 0..70000 (windows of one long root): the view's shape methods
			var shapeN int64
			var chans []int
			for C := 1; C <= 9; C++ {
				chans = append(chans, C)
			}
			chans = append(chans, 17, 65, 256, 300, 1024)
			c.ParallelFor(len(chans), func(i int) {
				C := chans[i]
				kmax := 70000
				if C > 9 {
					kmax = 9000
				}
				root := dyn.Alloc(dyn.Int8, al(C, kmax, kmax))
				var n int64
				for L := 0; L <= kmax; L++ {
					w := root.Slice(0, L)
					ch := w.Channel(C - 1)
					n++
					if ch.Length() != L || ch.Capacity() != kmax || ch.Channels() != 1 || w.Length() != L {
						cs := c14Case{Type: "int8", C: C, P: kmax, S: 0, L: L, Chan: C - 1}
						c.Fail(cs, core.Failf("Channel/shape", "Alloc[int8](C=%d,L=K=%d).Slice(0,%d).Channel(%d): Length() = %d (parent %d), Capacity() = %d (parent %d), Channels() = %d", C, kmax, L, C-1, ch.Length(), w.Length(), ch.Capacity(), w.Capacity(), ch.Channels()))
						break
					}
				}
				c.Eval(n, n)
				c.Add("shape_only_lengths", n)
			})
			_ = shapeN
			// parents of more than 2^24 samples (thorough: also more than 2^31: a 2 GiB buffer): windows whose
			// sample count runs through 2^24-3 .. 2^24+45, every channel count 1..8
			hugeC := []int{1, 2, 3, 4, 5, 6, 7, 8}
			c.ParallelFor(len(hugeC), func(i int) {
				C := hugeC[i]
				P := (1<<24)/C + 64
				root := dyn.Alloc(dyn.Int8, al(C, P, P))
				var n int64
				for samples := 1<<24 - 3; samples <= 1<<24+45; samples++ {
					cs := c14Case{Type: "int8", C: C, P: P, L: samples / C, R: samples % C, Chan: (samples + 1) % C, Huge: true}
					fs := core.Guard("Channel", func() []F { return c14HugeRun(cs, root) })
					c.Check(cs, true, fs)
					n++
					if len(fs) > 0 {
						break
					}
				}
				c.Add("huge_parent_windows", n)
			})
			if !c.Quick() {
				for _, C := range []int{1, 2, 8} {
					P := (1<<31)/C + 19
					root := dyn.Alloc(dyn.Int8, al(C, P, P))
					for _, L := range []int{P, P - 1, (1<<31)/C + 1} {
						for _, chn := range []int{0, C - 1} {
							cs := c14Case{Type: "int8", C: C, P: P, L: L, Chan: chn, Huge: true}
							c.Check(cs, true, core.Guard("Channel", func() []F { return c14HugeRun(cs, root) }))
							c.Add("huge_parent_windows", 1)
						}
					}
					root = nil
					runtime.GC()
				}
			}
			// a view taken once and used after 1..700 appends to its parent (every step checked)
			for _, t := range []int{dyn.Int8, dyn.Float64, dyn.Uint32} {
				for _, C := range []int{1, 2, 3} {
					for _, mode := range []string{"appendsample", "append"} {
						cs := c14Case{Type: tn(t), C: C, P: 0, Chan: C - 1}
						parent := dyn.Alloc(t, al(C, 1, 1000))
						for q := 0; q < C; q++ {
							parent.SetSample(q, dyn.Tok(t, int64(5+q)))
						}
						v := parent.Channel(C - 1)
						one := dyn.Alloc(t, al(C, 1, 1))
						var steps int64
						for k := 1; k <= 700; k++ {
							if mode == "appendsample" {
								parent.AppendSample(dyn.Tok(t, tk(int64(k))))
							} else {
								for q := 0; q < C; q++ {
									one.SetSample(q, dyn.Tok(t, tk(int64(k+q))))
								}
								parent.Append(one)
							}
							steps++
							bad := ""
							if v.Length() != parent.Length() || v.Capacity() != parent.Capacity() {
								bad = fmt.Sprintf("view reports Length %d Capacity %d, parent %d / %d", v.Length(), v.Capacity(), parent.Length(), parent.Capacity())
							} else if full := parent.Len() / C; full > 0 {
								i := full - 1
								pos := C*i + C - 1
								if pn, msg := dyn.Try(func() {
									if g, w := v.Sample(i), parent.Sample(pos); g != w {
										bad = fmt.Sprintf("view Sample(%d) = %v, parent sample %d = %v", i, g, pos, w)
									}
									x := dyn.Tok(t, tk(int64(k+50)))
									v.SetSample(i, x)
									if g := parent.Sample(pos); g != x {
										bad = fmt.Sprintf("SetSample(%d) through the view is not seen in the parent (position %d reads %v, wrote %v)", i, pos, g, x)
									}
								}); pn {
									bad = "panicked: " + msg
								}
							}
							if bad != "" {
								c.Fail(cs, core.Failf("Channel/stale-view", "Alloc[%s](C=%d,L=1,K=1000); v := Channel(%d); then %d x %s on the parent: %s", tn(t), C, C-1, k, mode, bad))
								break
							}
						}
						c.Eval(steps, steps)
						c.Add("view_after_appends_steps", steps)
					}
				}
			}
			c.Sample(cases[100])
			c.Sample(cases[len(cases)-1])
			c.Set("rule", "13 element types x C in 1..8 x parent = whole buffer of 0..3 frames or window [S,S+L) (S in 0..2, L in 0..3, with and without a spare frame after it, and with 1..C-1 samples appended into that spare frame: partly filled last frame) x every channel c; plus 9, 17 and 65 channels and 1100-frame windows for 3 types; the view's shape methods for every per-channel length 0..70000 (1-9 channels; 0..9000 for 17 and 65); a view taken once and used after each of 1..700 appends to its parent; inside a case every index i < Length is read, its BufferIndex taken, written with a fresh token (whole storage diffed) and read back; non-trivial = Length > 0; cases distinct by construction")
			c.Assume("windows are taken with Slice (C02)")
		},
		RunCase: func(c *core.Ctx, raw json.RawMessage) []F { return c14Run(decode[c14Case](raw)) },
	})
}
