//go:build verif

package props

import (
	"crypto/sha256"
	"encoding/json"
	"fmt"
	"math"
	"runtime"
	"sync"
	"sync/atomic"
	"time"
	"unsafe"

	"verif/mc/core"
	"verif/mc/dyn"
	"verif/mc/poolctl"

	vs "pipelined.dev/signal/verifsync"
)

// C10 — a buffer obtained from a pool is indistinguishable from a freshly allocated one.
// Breadth-first search over get/use/put histories of one pool; which pooled item a Get
// returns is an environment answer of the search (sync.Pool shim).

type pop struct {
	K string `json:"k"` // get | asample | appendbuf | stampall | set | reslice | put
	H int    `json:"h"` // handle index (in order of checkout, among outstanding)
	A int    `json:"a"` // get: index into the free list (== its length: New); set: 0 first cell, 1 cell at Len, 2 last cell; reslice: frames
}

func (o pop) String() string {
	switch o.K {
	case "get":
		return fmt.Sprintf("get[answer %d]", o.A)
	case "set":
		return fmt.Sprintf("h%d.set(%s)", o.H, [...]string{"first", "at-len", "last"}[o.A])
	case "reslice":
		return fmt.Sprintf("h%d=h%d.Slice(0,%d)", o.H, o.H, o.A)
	case "gc":
		return "runtime.GC()"
	case "copy":
		return "q := p (copy of the allocator value; Get and Put alternate between q and p from here on)"
	}
	return fmt.Sprintf("h%d.%s", o.H, o.K)
}

type c10Case struct {
	T       string `json:"type"`
	C, L, K int
	Ops     []pop `json:"ops"`
	Real    bool  `json:"real_pool,omitempty"` // conformance run on the real sync.Pool (answers ignored)
	// Directed (c10Directed): "twopools": two pools alive at once, made from the same allocator for the
	// element types T and T2, used in turn; "idle": N buffers checked out together and all put back.
	// Both on the real sync.Pool.
	Directed string `json:"directed,omitempty"`
	T2       string `json:"type2,omitempty"`
	N        int    `json:"n,omitempty"`
}

// pbuf is the model's shadow of one buffer header: what its storage holds and its length.
type pbuf struct {
	b      dyn.Buf
	cells  []int64
	n      int
	putTry bool // a put that had to panic was already attempted
}

type pworld struct {
	cs   c10Case
	t    int
	ctl  *poolctl.Seq
	pool dyn.Pool
	// copyOf, once the history contains "copy", is a copy of the allocator value made at that point;
	// from then on Get and Put go through the copy and the original in turns (a copy of the value is a
	// handle to the same pool)
	copyOf dyn.Pool
	turn   int
	out    []*pbuf
	// keyed by address only (uintptr): the model must not keep buffer headers alive, or finalizers a
	// changed tree attaches to them could never run; pooled and checked-out buffers are alive anyway
	free  map[uintptr]*pbuf // shadows of pooled items (state when they were put)
	order []uintptr         // released buffers in the order of their puts
	tok   int64
	answ  []int
	seenP map[unsafe.Pointer]bool // conformance runs on the real pool only
}

func (w *pworld) next() int64 {
	x := w.tok
	w.tok++
	if w.tok > 120 {
		w.tok = 1
	}
	return x
}

func newPWorld(cs c10Case) (*pworld, func()) {
	w := &pworld{cs: cs, t: typeByName(cs.T), tok: 1, free: map[uintptr]*pbuf{}, seenP: map[unsafe.Pointer]bool{}}
	unbind := func() {}
	if cs.Real {
		vs.Bind(vs.Passthrough)
		unbind = vs.Unbind
	} else {
		w.ctl = poolctl.NewSeq(func(n int) int {
			// answer a = the a-th pooled item if the pool (still) holds that many, else New.  The number of
			// items the sync.Pool holds is the implementation's business: it may keep released buffers
			// elsewhere (a private slot in front of the pool) without breaking the property.
			if len(w.answ) == 0 {
				return n // an extra Get inside the implementation: New
			}
			a := w.answ[0]
			w.answ = w.answ[1:]
			if a > n {
				a = n
			}
			return a
		})
		unbind = w.ctl.Bind()
	}
	w.pool = dyn.NewPool(w.t, al(cs.C, cs.L, cs.K))
	return w, unbind
}

func (w *pworld) nfree() int { return len(w.free) }

// handle returns the allocator value the next pool operation goes through.
func (w *pworld) handle() dyn.Pool {
	if w.copyOf == nil {
		return w.pool
	}
	w.turn++
	if w.turn%2 == 1 {
		return w.copyOf
	}
	return w.pool
}

// sync compares an outstanding buffer with its shadow.
func (w *pworld) cmp(p *pbuf) string {
	if p.b.Len() != p.n {
		return fmt.Sprintf("Len %d, model %d", p.b.Len(), p.n)
	}
	if p.b.Cap() != len(p.cells) {
		return fmt.Sprintf("Cap %d, model %d", p.b.Cap(), len(p.cells))
	}
	fb := full(p.b)
	for i, x := range p.cells {
		if g := fb.Sample(i).Tok(); g != x {
			return fmt.Sprintf("sample %d reads %d, model %d", i, g, x)
		}
	}
	return ""
}

func (w *pworld) apply(o pop) (fs []F) {
	cs := w.cs
	fail := func(kind, format string, a ...any) {
		fs = append(fs, core.Failf("Pool/"+kind, "%s: %s", o, fmt.Sprintf(format, a...)))
	}
	C, L, K := cs.C, cs.L, cs.K
	switch o.K {
	case "get":
		w.answ = []int{o.A}
		var g dyn.Buf
		if pn, msg := dyn.Try(func() { g = w.handle().Get() }); pn {
			fail("panic", "Get panicked: %s", msg)
			return
		}
		ptr := g.Ptr()
		if _, ok := w.free[uintptr(ptr)]; ok {
			delete(w.free, uintptr(ptr))
			for i, q := range w.order {
				if q == uintptr(ptr) {
					w.order = append(append([]uintptr{}, w.order[:i]...), w.order[i+1:]...)
					break
				}
			}
		} else if cs.Real && w.seenP[ptr] {
			fail("conformance", "the real sync.Pool returned a buffer that is neither pooled nor new")
			return
		}
		if cs.Real {
			w.seenP[ptr] = true
		}
		for i, p := range w.out {
			if p.b.Ptr() == ptr {
				fail("same-handle", "Get returned the very buffer that is still checked out as h%d", i)
				return
			}
		}
		want := header{C, dyn.Types[w.t].Bits, C * L, C * K, L, K}
		if h := hdr(g); h != want {
			kind := "fresh-shape"
			if h.Len != want.Len && h.Cap == want.Cap && h.Ch == want.Ch {
				kind = "fresh-length"
			}
			fail(kind, "the pooled buffer has shape %+v, a fresh one %+v", h, want)
			return
		}
		fb := full(g)
		for i := 0; i < fb.Len(); i++ {
			if v := fb.Sample(i); v.B != 0 {
				fail("fresh-nonzero", "sample %d of the pooled buffer reads %v (Len %d, Cap %d), a fresh buffer is zero over its whole capacity", i, v, g.Len(), g.Cap())
				return
			}
		}
		// storage disjoint from every outstanding buffer: stamp, verify, restore
		for i := 0; i < fb.Len(); i++ {
			fb.SetSample(i, dyn.Tok(w.t, 121+int64(i%5)))
		}
		for i, p := range w.out {
			if d := w.cmp(p); d != "" {
				fail("shared-storage", "stamping the buffer just obtained changed h%d, which is still checked out: %s", i, d)
				return
			}
		}
		for i := 0; i < fb.Len(); i++ {
			fb.SetSample(i, dyn.Tok(w.t, 0))
		}
		w.out = append(w.out, &pbuf{b: g, cells: make([]int64, C*K), n: C * L})
		return
	}
	if o.K == "copy" {
		w.copyOf = w.pool.Copy()
		return
	}
	p := w.out[o.H]
	switch o.K {
	case "asample":
		x := w.next()
		p.b.AppendSample(dyn.Tok(w.t, x))
		if p.n < len(p.cells) {
			p.cells[p.n] = x
			p.n++
		}
	case "appendbuf":
		src := dyn.Alloc(w.t, al(C, 1, 1))
		vals := make([]int64, C)
		for i := range vals {
			vals[i] = w.next()
			src.SetSample(i, dyn.Tok(w.t, vals[i]))
		}
		if pn, msg := dyn.Try(func() { p.b.Append(src) }); pn {
			fail("use-panic", "Append panicked: %s", msg)
			return
		}
		if p.n+C <= len(p.cells) {
			copy(p.cells[p.n:], vals)
			p.n += C
		} else {
			nc := make([]int64, p.b.Cap())
			copy(nc, p.cells[:p.n])
			copy(nc[p.n:], vals)
			p.n += C
			fb := full(p.b)
			for i := p.n; i < len(nc) && i < fb.Len(); i++ {
				nc[i] = fb.Sample(i).Tok()
			}
			p.cells = nc
		}
	case "appendpeer":
		// another buffer of the same pool, still checked out, is appended to this one (both hold whole
		// frames); afterwards one cell of this buffer is rewritten: the two must not share storage
		q := w.out[o.A]
		if pn, msg := dyn.Try(func() { p.b.Append(q.b) }); pn {
			fail("use-panic", "Append of another buffer of the pool panicked: %s", msg)
			return
		}
		vals := append([]int64{}, q.cells[:q.n]...)
		if p.n+len(vals) <= len(p.cells) {
			copy(p.cells[p.n:], vals)
			p.n += len(vals)
		} else {
			nc := make([]int64, p.b.Cap())
			copy(nc, p.cells[:p.n])
			copy(nc[p.n:], vals)
			p.n += len(vals)
			fb := full(p.b)
			for i := p.n; i < len(nc) && i < fb.Len(); i++ {
				nc[i] = fb.Sample(i).Tok()
			}
			p.cells = nc
		}
		if len(p.cells) > 0 {
			x := w.next()
			full(p.b).SetSample(0, dyn.Tok(w.t, x))
			p.cells[0] = x
		}
	case "stampall":
		fb := full(p.b)
		for i := range p.cells {
			x := w.next()
			fb.SetSample(i, dyn.Tok(w.t, x))
			p.cells[i] = x
		}
	case "stampneg":
		// every cell of the whole capacity holds a negative zero (floating-point types; a plain zero for
		// the others): it compares equal to 0, and a fresh buffer does not hold it
		fb := full(p.b)
		z := dyn.Tok(w.t, 0)
		if dyn.Types[w.t].Kind == dyn.Float {
			z = dyn.F(math.Copysign(0, -1))
		}
		for i := range p.cells {
			fb.SetSample(i, z)
			p.cells[i] = 0
		}
	case "set":
		idx := [...]int{0, p.n, len(p.cells) - 1}[o.A]
		x := w.next()
		full(p.b).SetSample(idx, dyn.Tok(w.t, x))
		p.cells[idx] = x
	case "reslice":
		p.b = p.b.Slice(0, o.A)
		p.n = C * o.A
	case "gc":
		// the header the pool handed out may be garbage by now (only a window of it is kept): let the
		// collector and any finalizers run; the window must not change
		runtime.GC()
		runtime.GC()
		time.Sleep(300 * time.Microsecond)
		runtime.Gosched()
	case "put":
		accept := len(p.cells) == C*K
		pn, msg := dyn.Try(func() { w.handle().Put(p.b) })
		if accept {
			if pn {
				fail("put-panic", "Put of a buffer with the pool's capacity panicked: %s", msg)
				return
			}
			w.free[uintptr(p.b.Ptr())] = p
			w.order = append(w.order, uintptr(p.b.Ptr()))
			w.out = append(append([]*pbuf{}, w.out[:o.H]...), w.out[o.H+1:]...)
			return
		}
		if !pn {
			fail("put-accepted", "Put accepted a buffer of total capacity %d into a pool of capacity %d", len(p.cells), C*K)
			return
		}
		p.putTry = true
	}
	for i, q := range w.out {
		if d := w.cmp(q); d != "" {
			fail("use", "after the operation h%d: %s", i, d)
			return
		}
	}
	return
}

// ops enabled in the current model state
func (w *pworld) ops(maxOut int) []pop {
	var r []pop
	if len(w.out) < maxOut {
		for a := 0; a <= w.nfree(); a++ {
			r = append(r, pop{K: "get", A: a})
		}
	}
	if w.copyOf == nil && len(w.free)+len(w.out) > 0 { // copy the allocator value once it has been used
		r = append(r, pop{K: "copy"})
	}
	C := w.cs.C
	for h, p := range w.out {
		r = append(r, pop{K: "asample", H: h})
		if p.n%C == 0 {
			r = append(r, pop{K: "appendbuf", H: h})
			if a := (h + 1) % len(w.out); a != h && w.out[a].n%C == 0 && w.out[a].n > 0 {
				r = append(r, pop{K: "appendpeer", H: h, A: a})
			}
		}
		if len(p.cells) > 0 {
			r = append(r, pop{K: "stampall", H: h})
			if dyn.Types[w.t].Kind == dyn.Float {
				r = append(r, pop{K: "stampneg", H: h})
			}
			seen := map[int]bool{}
			for a, idx := range [...]int{0, p.n, len(p.cells) - 1} {
				if idx < len(p.cells) && !seen[idx] {
					seen[idx] = true
					r = append(r, pop{K: "set", H: h, A: a})
				}
			}
		}
		frames := len(p.cells) / C
		for k := 0; k <= frames; k++ {
			if frames > 8 && k != 0 && k != 1 && k != frames/2 && k != frames-1 && k != frames {
				continue // long buffers: a sparse set of lengths
			}
			if C*k != p.n {
				r = append(r, pop{K: "reslice", H: h, A: k})
			}
		}
		if !p.putTry {
			r = append(r, pop{K: "put", H: h})
		}
	}
	return r
}

// key: canonical form of the model state.  Pooled items keep the shadow of what they held
// when they were put: the implementation's future may depend on it.
func (w *pworld) key() [16]byte {
	var buf []byte
	ren := map[int64]byte{0: 0} // zero is observable (freshness), it is never renamed
	enc := func(p *pbuf) {
		buf = append(buf, byte(p.n), byte(p.n>>8), byte(len(p.cells)), byte(len(p.cells)>>8))
		if p.putTry {
			buf = append(buf, 1)
		} else {
			buf = append(buf, 0)
		}
		for _, x := range p.cells {
			r, ok := ren[x]
			if !ok {
				r = byte(len(ren))
				ren[x] = r
			}
			buf = append(buf, r)
		}
	}
	for _, p := range w.out {
		enc(p)
	}
	buf = append(buf, 0xfe)
	if w.copyOf != nil {
		buf = append(buf, 0xfd, byte(w.turn%2))
	}
	for _, ptr := range w.order {
		if p, ok := w.free[ptr]; ok {
			enc(p)
		}
	}
	h := sha256.Sum256(buf)
	var k [16]byte
	copy(k[:], h[:16])
	return k
}

// c10Directed runs the directed cases (real sync.Pool, sequential).
func c10Directed(cs c10Case) (fs []F) {
	fail := func(kind, format string, a ...any) {
		fs = append(fs, core.Failf("Pool/"+kind, "[PoolAlloc(C=%d,L=%d,K=%d) %s] %s", cs.C, cs.L, cs.K, cs.Directed, fmt.Sprintf(format, a...)))
	}
	vs.Bind(vs.Passthrough)
	defer vs.Unbind()
	a := al(cs.C, cs.L, cs.K)
	fresh := func(g dyn.Buf, t int, what string) bool {
		want := header{cs.C, dyn.Types[t].Bits, cs.C * cs.L, cs.C * cs.K, cs.L, cs.K}
		if h := hdr(g); h != want {
			fail("fresh-shape", "%s: the pooled buffer has shape %+v, a fresh one %+v", what, h, want)
			return false
		}
		fb := full(g)
		for i := 0; i < fb.Len(); i++ {
			if v := fb.Sample(i); v.B != 0 {
				fail("fresh-nonzero", "%s: sample %d of the pooled buffer reads %v", what, i, v)
				return false
			}
		}
		return true
	}
	switch cs.Directed {
	case "twopools":
		t1, t2 := typeByName(cs.T), typeByName(cs.T2)
		p1, p2 := dyn.NewPool(t1, a), dyn.NewPool(t2, a)
		for round := 0; round < 3; round++ {
			for k, p := range []dyn.Pool{p1, p2} {
				t := []int{t1, t2}[k]
				what := fmt.Sprintf("round %d, Get on the pool of %s (a pool of %s with the same allocator is in use too)", round, tn(t), tn([]int{t2, t1}[k]))
				var g dyn.Buf
				if pn, msg := dyn.Try(func() { g = p.Get() }); pn {
					fail("panic", "%s panicked: %s", what, msg)
					return
				}
				if g.T() != t {
					fail("fresh-shape", "%s returned a buffer of element type %s", what, tn(g.T()))
					return
				}
				if !fresh(g, t, what) {
					return
				}
				fill(full(g), int64(3+round))
				if pn, msg := dyn.Try(func() { p.Put(g) }); pn {
					fail("put-panic", "%s: Put of that buffer panicked: %s", what, msg)
					return
				}
			}
		}
	case "idle":
		t := typeByName(cs.T)
		p := dyn.NewPool(t, a)
		done := make(chan struct{})
		go func() {
			defer close(done)
			defer func() {
				if r := recover(); r != nil {
					fail("panic", "%d buffers checked out together and put back: %v", cs.N, r)
				}
			}()
			for round := 0; round < 2; round++ {
				var held []dyn.Buf
				for i := 0; i < cs.N; i++ {
					g := p.Get()
					if !fresh(g, t, fmt.Sprintf("round %d, buffer %d of %d held together", round, i+1, cs.N)) {
						return
					}
					fill(full(g), int64(1+i%50))
					held = append(held, g)
				}
				for _, g := range held {
					p.Put(g)
				}
			}
		}()
		select {
		case <-done:
		case <-time.After(20 * time.Second):
			fail("put-blocks", "%d buffers checked out together and put back: the calls did not return within 20 s (Get and Put never wait for each other)", cs.N)
		}
	}
	return
}

func c10Replay(cs c10Case, checkFrom int) (w *pworld, fs []F) {
	if cs.Directed != "" {
		return nil, core.Guard("Pool", func() []F { return c10Directed(cs) })
	}
	w, unbind := newPWorld(cs)
	defer unbind()
	for i, o := range cs.Ops {
		if o.K == "get" && cs.Real {
			o.A = 0
		}
		f := w.apply(o)
		if len(f) > 0 {
			for k := range f {
				if i < checkFrom {
					// this prefix passed when it was explored: what the library does depends on something
					// besides the history (garbage collection, finalizers, time)
					f[k].Key += "/not-deterministic"
					f[k].Msg += " (the same history passed when it was first explored: the outcome depends on something besides the calls made, such as garbage collection or finalizers)"
				}
				f[k].Msg = fmt.Sprintf("[PoolAlloc[%s](C=%d,L=%d,K=%d)%s] history %v :: %s", cs.T, cs.C, cs.L, cs.K, map[bool]string{true: " real sync.Pool", false: ""}[cs.Real], cs.Ops[:i+1], f[k].Msg)
			}
			return w, f
		}
	}
	return w, nil
}

type c10Cfg struct {
	t       int
	C, L, K int
	depth   int
	maxOut  int
}

func c10BFS(c *core.Ctx, cfg c10Cfg, conform bool) (states, trans, conformed int64, depthDone int, answers int64) {
	seen := newKeySet()
	frontier := [][]pop{{}}
	base := c10Case{T: tn(cfg.t), C: cfg.C, L: cfg.L, K: cfg.K}
	var tr, cf, nondefault atomic.Int64
	for d := 1; d <= cfg.depth; d++ {
		var mu sync.Mutex
		var next [][]pop
		c.ParallelFor(len(frontier), func(i int) {
			path := frontier[i]
			cs := base
			cs.Ops = path
			w, pfs := c10Replay(cs, len(path))
			if len(pfs) > 0 {
				c.Fail(cs, pfs...)
				return
			}
			ops := w.ops(cfg.maxOut)
			var local [][]pop
			for _, o := range ops {
				np := append(append(make([]pop, 0, len(path)+1), path...), o)
				ncs := base
				ncs.Ops = np
				w2, fs := c10Replay(ncs, len(path))
				tr.Add(1)
				if o.K == "get" && o.A != w.nfree() {
					nondefault.Add(1)
				}
				if len(fs) > 0 {
					c.Fail(ncs, fs...)
					continue
				}
				if conform {
					// the same history on the real sync.Pool: every answer must be pooled-or-new, and fresh
					rcs := ncs
					rcs.Real = true
					if _, rfs := c10Replay(rcs, 0); len(rfs) > 0 {
						c.Fail(rcs, rfs...)
					}
					cf.Add(1)
				}
				if seen.add(w2.key()) {
					local = append(local, np)
				}
			}
			mu.Lock()
			next = append(next, local...)
			mu.Unlock()
		})
		if c.CapHit() {
			break
		}
		depthDone = d
		frontier = next
		if c.WantSample() && len(next) > 0 {
			c.Sample(map[string]any{"pool": fmt.Sprintf("%s C=%d L=%d K=%d", tn(cfg.t), cfg.C, cfg.L, cfg.K), "depth": d, "history": fmt.Sprint(next[len(next)*2/3])})
		}
		if len(frontier) == 0 {
			break
		}
	}
	return int64(seen.size()), tr.Load(), cf.Load(), depthDone, nondefault.Load()
}

func init() {
	core.Register(&core.Prop{
		ID: "C10", Level: "model_checking", Design: "§5 C10",
		Run: func(c *core.Ctx) {
			shapes := [][3]int{{1, 0, 2}, {2, 0, 2}, {2, 1, 2}, {2, 2, 2}, {3, 1, 1}, {1, 0, 0}, {2, 0, 0}}
			depthAll, depthFam := 5, 6
			if !c.Quick() {
				depthAll, depthFam = 6, 9
			}
			var states, trans, conf, answers int64
			var report []map[string]any
			run := func(cfg c10Cfg, conform bool) {
				if c.Expired() {
					return
				}
				s, tr, cf, dd, an := c10BFS(c, cfg, conform)
				states += s
				trans += tr
				conf += cf
				answers += an
				report = append(report, map[string]any{"type": tn(cfg.t), "C": cfg.C, "L": cfg.L, "K": cfg.K, "depth_requested": cfg.depth, "depth_completed": dd, "states": s, "transitions": tr, "non_default_pool_answers": an, "histories_also_run_on_real_sync_pool": cf})
			}
			for _, sh := range shapes {
				for t := 0; t < dyn.NB; t++ {
					run(c10Cfg{t, sh[0], sh[1], sh[2], depthAll, 3}, t == dyn.Int16 || t == dyn.Float32)
				}
			}
			for _, sh := range shapes {
				for _, t := range []int{dyn.Int8, dyn.Uint32, dyn.Float64} {
					run(c10Cfg{t, sh[0], sh[1], sh[2], depthFam, 3}, false)
				}
			}
			// long buffers (size-threshold paths), shallower
			for _, sh := range [][3]int{{2, 0, 16}, {1, 5, 40}, {3, 2, 500}, {1, 0, 1025}} {
				for _, t := range []int{dyn.Int16, dyn.Float32} {
					run(c10Cfg{t, sh[0], sh[1], sh[2], depthAll - 1, 2}, false)
				}
			}
			// long linear histories, every step checked, no state deduplication: state the implementation
			// may keep across calls (a counter, a cache) is not part of the model key, so the search
			// above cannot drive it far; these runs can.
			var longSteps int64
			longRounds := 0
			longRun := func(t int, sh [3]int, variant int) {
				cs := c10Case{T: tn(t), C: sh[0], L: sh[1], K: sh[2]}
				w, unbind := newPWorld(cs)
				defer unbind()
				step := func(o pop) bool {
					cs.Ops = append(cs.Ops, o)
					longSteps++
					if fs := w.apply(o); len(fs) > 0 {
						for k := range fs {
							fs[k].Msg = fmt.Sprintf("[PoolAlloc[%s](C=%d,L=%d,K=%d)] long history of %d steps ending in %v :: %s", cs.T, cs.C, cs.L, cs.K, len(cs.Ops), cs.Ops[max0(len(cs.Ops)-6):], fs[k].Msg)
						}
						c.Fail(cs, fs...)
						return false
					}
					return true
				}
				uses := []string{"asample", "stampall", "set", "appendbuf", "reslice0", "resliceK", "none"}
				if dyn.Types[t].Kind == dyn.Float {
					uses = append(uses, "stampneg", "stampneg")
				}
				rounds := 300
				if sh[0]*sh[2] > 20000 {
					rounds = 24
				}
				if longRounds > 0 {
					rounds = longRounds
				}
				for round := 0; round < rounds; round++ {
					nf := w.nfree()
					ans := nf // New
					switch {
					case nf > 0 && variant%3 == 0:
						ans = nf - 1
					case nf > 0 && variant%3 == 1:
						ans = (round * 7) % (nf + 1)
					case nf > 0 && round%4 != 0:
						ans = 0
					}
					if !step(pop{K: "get", A: ans}) {
						return
					}
					h := len(w.out) - 1
					p := w.out[h]
					switch u := uses[(round+variant)%len(uses)]; u {
					case "asample":
						if !step(pop{K: "asample", H: h}) {
							return
						}
					case "stampall":
						if len(p.cells) > 0 && !step(pop{K: "stampall", H: h}) {
							return
						}
					case "set":
						if len(p.cells) > 0 && !step(pop{K: "set", H: h, A: 2}) {
							return
						}
					case "stampneg":
						if len(p.cells) > 0 && !step(pop{K: "stampneg", H: h}) {
							return
						}
					case "appendbuf":
						if p.n%cs.C == 0 && p.n+cs.C <= len(p.cells) && !step(pop{K: "appendbuf", H: h}) {
							return
						}
					case "reslice0":
						if p.n != 0 && !step(pop{K: "reslice", H: h, A: 0}) {
							return
						}
					case "resliceK":
						if p.n != len(p.cells) && !step(pop{K: "reslice", H: h, A: len(p.cells) / cs.C}) {
							return
						}
					}
					if variant >= 4 && round%31 == 3 && len(p.cells) > 0 {
						// keep only a window of the pooled buffer, fill it, collect garbage
						if !step(pop{K: "stampall", H: h}) || !step(pop{K: "reslice", H: h, A: len(p.cells) / cs.C}) || !step(pop{K: "gc", H: h}) {
							return
						}
					}
					if variant >= 3 && round%5 == 4 && len(w.out) < 2 {
						continue // keep this one checked out for a round: two buffers outstanding
					}
					for len(w.out) > 0 {
						if !step(pop{K: "put", H: len(w.out) - 1}) {
							return
						}
					}
				}
			}
			for _, sh := range [][3]int{{1, 0, 2}, {2, 1, 2}, {3, 1, 1}, {2, 0, 16}, {1, 5, 40}, {3, 2, 500}, {2, 0, 2500}, {3, 0, 30000}, {1, 0, 70001}} {
				for _, t := range []int{dyn.Int8, dyn.Int32, dyn.Float64} {
					for variant := 0; variant < 6; variant++ {
						longRun(t, sh, variant)
					}
				}
			}
			// every element type the harness knows (built-in, named, named with misleading names, same-named
			// local types) and very wide pools (more channels than fit in 8 or 16 bits): short directed histories
			directedFrom := longSteps
			longRounds = 18
			for _, ty := range dyn.Types {
				for _, sh := range [][3]int{{2, 0, 4}, {1, 3, 5}} {
					for variant := 0; variant < 6; variant += 5 {
						longRun(ty.ID, sh, variant)
					}
				}
			}
			longRounds = 9
			for _, sh := range [][3]int{{255, 1, 2}, {256, 0, 2}, {300, 1, 1}, {65535, 0, 1}, {65536, 1, 1}, {65538, 0, 2}} {
				for _, t := range []int{dyn.Int8, dyn.Float32} {
					longRun(t, sh, 4)
				}
			}
			longRounds = 0
			c.Set("directed_all_types_and_wide_pool_steps", longSteps-directedFrom)
			// two pools alive at once whose element types have the same width (same allocator), used in turn;
			// many buffers of one pool idle at once
			var dcs []c10Case
			for _, pr := range [][2]int{{dyn.Int32, dyn.Float32}, {dyn.Float32, dyn.Uint32}, {dyn.Int64, dyn.Float64}, {dyn.Uint64, dyn.Int}, {dyn.Int8, dyn.Uint8}, {dyn.Int16, dyn.Uint16}, {dyn.Int16, dyn.MyInt16ID()}, {dyn.Int8, dyn.Int16}} {
				for _, sh := range [][3]int{{2, 0, 4}, {1, 3, 5}} {
					dcs = append(dcs, c10Case{T: tn(pr[0]), T2: tn(pr[1]), C: sh[0], L: sh[1], K: sh[2], Directed: "twopools"})
				}
			}
			dcs = append(dcs, c10Case{T: "int16", C: 2, L: 1, K: 3, Directed: "idle", N: 70}, c10Case{T: "float64", C: 1, L: 0, K: 8, Directed: "idle", N: 300})
			for _, cs := range dcs {
				_, fs := c10Replay(cs, 0)
				c.Check(cs, true, fs)
				trans += 6
			}
			trans += longSteps
			c.Set("long_linear_history_steps", longSteps)
			c.Set("states", states)
			c.Set("transitions", trans)
			c.Set("traces_validated_against_impl", trans+conf)
			c.Set("histories_validated_on_real_sync_pool", conf)
			c.Set("non_default_pool_answers_explored", answers)
			c.Set("evaluations", trans)
			c.Set("distinct_nontrivial", states)
			c.Set("configs", report)
			c.Set("rule", "breadth-first search over histories of {get (environment answer: any pooled item or New), appendSample, append of one frame (may grow and leave the pool's storage), stamp the whole capacity, set first/at-length/last cell, reslice from frame 0 to every length, put, copy the allocator value (once; Get and Put then alternate between the copy and the original)} on one pool with <= 3 buffers outstanding, for 7 small allocator shapes x 13 element types and 4 long ones (16, 40, 500, 1025 frames; up to 5000 samples in the long linear histories) x 2 types; every Get is judged: shape, bit depth, zero over the whole capacity, handle distinct from and storage disjoint from every outstanding buffer; states deduplicated by a canonical key that keeps what each pooled item held when it was put")
			c.Assume("sync.Pool is replaced by the overlay-injected shim whose Get may return any pooled item or call New (an over-approximation of sync.Pool, incl. items dropped by the GC); the histories of two element types are re-run on the real sync.Pool (shim pass-through) as conformance check", "use after put and double put are outside the property's domain")
		},
		RunCase: func(c *core.Ctx, raw json.RawMessage) []F {
			_, fs := c10Replay(decode[c10Case](raw), 0)
			return fs
		},
		GoTest: func(raw json.RawMessage) string {
			cs := decode[c10Case](raw)
			var ops [][3]interface{}
			for _, o := range cs.Ops {
				ops = append(ops, [3]interface{}{o.K, o.H, o.A})
			}
			return poolGoTest(cs.T, cs.C, cs.L, cs.K, ops)
		},
	})
}
