//go:build !amd64

package schedx

// G: no cheap goroutine identity on this platform; 0 disables the foreign-goroutine guard.
func G() uintptr { return 0 }
