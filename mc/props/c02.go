package props

import (
	"encoding/json"
	"fmt"
	"math"
	"math/big"
	"sort"

	"verif/mc/core"
	"verif/mc/dyn"
)

// C02 — Slice: a channel-aware shared window with Go slice semantics.

type c02Case struct {
	Type       string   `json:"type"`
	C, L, K, R int      // root = Alloc(C,L,K) followed by R single-sample appends
	Path       [][2]int `json:"path"` // valid slicings applied first (nesting)
	S, E       int      // the slicing under test
	// Twice: the slicing under test is made a first time, one sample is appended through that first
	// window (where it has room), and only then the slicing under test proper is made: it yields a window
	// of its own, whatever the parent handed out before.
	Twice bool `json:"twice,omitempty"`
	// G > 0: the root was grown first by an Append of K-L+G frames (beyond its capacity): its capacity is
	// then whatever the library reports (K is that reported capacity, filled in by the enumerator).
	G int `json:"g,omitempty"`
}

// c02Build builds root, observer and model and applies the path.
func c02Build(cs c02Case) (root, obs dyn.Buf, cur dyn.Buf, st *mstore, mcur mview, fs []F) {
	t := typeByName(cs.Type)
	root = dyn.Alloc(t, al(cs.C, cs.L, cs.K))
	for i := 0; i < cs.R; i++ {
		root.AppendSample(dyn.Tok(t, 0))
	}
	if cs.G > 0 {
		root = c02Grown(t, cs.C, cs.L, cs.G)
		if root.Capacity() != cs.K || root.Cap() != cs.C*cs.K || root.Len() != cs.C*cs.L {
			fs = append(fs, core.Failf("Slice/setup", "%s the grown root has Len %d Cap %d Capacity %d, the same construction gave capacity %d before", c02Desc(cs), root.Len(), root.Cap(), root.Capacity(), cs.K))
			return
		}
	}
	obs = root.Slice(0, cs.K)
	if h := hdr(root); h.Len != cs.C*cs.L+cs.R || h.Cap != cs.C*cs.K {
		fs = append(fs, core.Failf("Slice/parent-changed", "%s Slice(0,%d) of the root changed the root itself: Len %d Cap %d, want %d and %d", c02Desc(cs), cs.K, h.Len, h.Cap, cs.C*cs.L+cs.R, cs.C*cs.K))
		return
	}
	st = newStore(cs.C * cs.K)
	for i := range st.cells {
		st.cells[i] = tk(int64(i + 1))
		obs.SetSample(i, dyn.Tok(t, st.cells[i]))
	}
	mcur = mview{st: st, off: 0, n: cs.C*cs.L + cs.R, ch: cs.C, bits: dyn.Types[t].Bits}
	cur = root
	for _, p := range cs.Path {
		m2, ok := mcur.slice(p[0], p[1])
		if !ok {
			panic("c02: invalid path in case")
		}
		var nb dyn.Buf
		if pn, msg := dyn.Try(func() { nb = cur.Slice(p[0], p[1]) }); pn {
			fs = append(fs, core.Failf("Slice/panic-on-valid", "%s path step Slice(%d,%d) panicked: %s", c02Desc(cs), p[0], p[1], msg))
			return
		}
		cur, mcur = nb, m2
	}
	return
}

// c02Grown: Alloc(C, l0, l0) with l0 = max(L-G, 0) frames, grown by an Append of L-l0 frames to L frames.
func c02Grown(t, C, L, G int) dyn.Buf {
	l0 := L - G
	if l0 < 0 {
		l0 = 0
	}
	root := dyn.Alloc(t, al(C, l0, l0))
	_ = root.Slice(0, l0) // a window taken before the growth (and dropped)
	src := dyn.Alloc(t, al(C, L-l0, L-l0))
	root.Append(src)
	return root
}

func c02Desc(cs c02Case) string {
	if cs.G > 0 {
		return fmt.Sprintf("Alloc[%s](C=%d) grown by Append to %d frames (capacity %d), path %v:", cs.Type, cs.C, cs.L, cs.K, cs.Path)
	}
	return fmt.Sprintf("Alloc[%s](C=%d,L=%d,K=%d)+%d samples, path %v:", cs.Type, cs.C, cs.L, cs.K, cs.R, cs.Path)
}

func c02Run(cs c02Case) []F {
	return core.Guard("Slice", func() []F { return c02RunRaw(cs) })
}

func c02RunRaw(cs c02Case) (fs []F) {
	_, obs, cur, st, mcur, fs := c02Build(cs)
	if len(fs) > 0 {
		return
	}
	t := typeByName(cs.Type)
	fail := func(kind, format string, a ...any) {
		fs = append(fs, core.Failf("Slice/"+kind, "%s Slice(%d,%d): %s", c02Desc(cs), cs.S, cs.E, fmt.Sprintf(format, a...)))
	}
	var first dyn.Buf
	if m1, ok1 := mcur.slice(cs.S, cs.E); cs.Twice && ok1 {
		if pn, msg := dyn.Try(func() { first = cur.Slice(cs.S, cs.E) }); pn {
			fail("panic-on-valid", "valid range (capacity %d) panicked: %s", mcur.capacity(), msg)
			return
		}
		first.AppendSample(dyn.Tok(t, tk(int64(len(st.cells)+7))))
		if m1.n < m1.ch*m1.capacity() {
			st.cells[m1.off+m1.n] = tk(int64(len(st.cells) + 7))
		}
	}
	before := hdr(cur)
	mchild, ok := mcur.slice(cs.S, cs.E)
	var child dyn.Buf
	pn, msg := dyn.Try(func() { child = cur.Slice(cs.S, cs.E) })
	if h := hdr(cur); h != before {
		fail("parent-changed", "parent shape changed from %+v to %+v", before, h)
	}
	if d := cmpStore(obs, st); d != "" {
		fail("storage-changed", "slicing changed the storage: %s", d)
	}
	if !ok {
		if !pn {
			fail("no-panic", "range outside 0<=start<=end<=capacity(%d) did not panic but returned a view with shape %+v", mcur.capacity(), hdr(child))
		}
		return
	}
	if pn {
		fail("panic-on-valid", "valid range (capacity %d) panicked: %s", mcur.capacity(), msg)
		return
	}
	if d := cmpView(child, mchild); d != "" {
		if cs.Twice {
			d += " (the same range was sliced before and that first window was appended to)"
		}
		fail("view", "%s", d)
		return
	}
	if first != nil && first.Ptr() == child.Ptr() {
		fail("header-reused", "slicing the same range again returned the very buffer object handed out before, which is still in use")
		return
	}
	// aliasing, both ways, over the child's whole capacity
	cf := full(child)
	mcf, _ := mchild.slice(0, mchild.capacity())
	tok := tk(int64(len(st.cells) + 1))
	// small windows: every cell, whole storage compared after every write; large ones: a sparse set of
	// cells (ends, middle, every 97th), whole storage compared after the first and the last write
	cellsOf := func(n int) []int {
		if n <= 200 {
			r := make([]int, n)
			for i := range r {
				r[i] = i
			}
			return r
		}
		r := []int{0, 1, n / 2, n - 2, n - 1}
		for i := 97; i < n-2; i += 97 {
			r = append(r, i)
		}
		return r
	}
	ks := cellsOf(mcf.n)
	for i, k := range ks {
		cf.SetSample(k, dyn.Tok(t, tok))
		mcf.set(k, tok)
		tok = tk(tok + 1)
		if mcf.n <= 200 || i == 0 || i == len(ks)-1 {
			if d := cmpStore(obs, st); d != "" {
				fail("alias", "after writing sample %d through the child: %s", k, d)
				return
			}
		}
	}
	if dyn.Types[t].Kind == dyn.Float && mcf.n > 0 {
		// the two zeros: a write through either view is seen through the other by bit pattern
		nz, pz := dyn.F(math.Copysign(0, -1)), dyn.F(0)
		for _, pr := range [][2]dyn.Val{{pz, nz}, {nz, pz}, {dyn.F(1), dyn.F(math.NaN())}, {dyn.F(math.NaN()), dyn.F(-1)}} {
			obs.SetSample(mcf.off, pr[0])
			cf.SetSample(0, pr[1])
			if g := obs.Sample(mcf.off); !valSame(g, pr[1]) {
				fail("alias", "the parent storage holds %v, %v written through the child: the parent storage reads %v", pr[0], pr[1], g)
				return
			}
			cf.SetSample(0, pr[0])
			obs.SetSample(mcf.off, pr[1])
			if g := cf.Sample(0); !valSame(g, pr[1]) {
				fail("alias", "the child holds %v, %v written to the parent storage: the child reads %v", pr[0], pr[1], g)
				return
			}
		}
		obs.SetSample(mcf.off, dyn.Tok(t, st.cells[mcf.off]))
	}
	for _, k := range ks {
		obs.SetSample(mcf.off+k, dyn.Tok(t, tok))
		if g := cf.Sample(k).Tok(); g != tok {
			fail("alias", "a write to parent storage position %d is not seen through child sample %d (reads %d, want %d)", mcf.off+k, k, g, tok)
			return
		}
		st.cells[mcf.off+k] = tok
		tok = tk(tok + 1)
	}
	return
}

// c02Points returns the start/end alphabet for channel count C and capacity K.
func c02Points(C, K int, extremes bool) []int {
	set := map[int]bool{}
	for x := -2; x <= K+2; x++ {
		set[x] = true
	}
	if extremes {
		for _, x := range []int{math.MinInt, math.MinInt + 1, -(1 << 62), math.MaxInt - 1, math.MaxInt, math.MaxInt/C - 1, math.MaxInt / C, math.MaxInt/C + 1} {
			set[x] = true
		}
		// the points where C*x wraps around 2^64 to a small value
		two64 := new(big.Int).Lsh(big.NewInt(1), 64)
		for j := 1; j < C; j++ {
			q := new(big.Int).Mul(two64, big.NewInt(int64(j)))
			q.Add(q, big.NewInt(int64(C-1)))
			q.Div(q, big.NewInt(int64(C))) // ceil(j*2^64/C)
			for d := 0; d <= K+1; d++ {
				x := new(big.Int).Add(q, big.NewInt(int64(d)))
				x.Mod(x, two64)
				set[int(int64(x.Uint64()))] = true
			}
		}
	}
	var r []int
	for x := range set {
		r = append(r, x)
	}
	sort.Ints(r)
	return r
}

func init() {
	core.Register(&core.Prop{
		ID: "C02", Level: "exploration", Design: "§5 C02",
		Run: func(c *core.Ctx) {
			maxK, maxDepth := 3, 2
			if !c.Quick() {
				maxK, maxDepth = 4, 3
			}
			type root struct{ C, L, K, R int }
			var roots []root
			for C := 1; C <= 4; C++ {
				for K := 0; K <= maxK; K++ {
					for L := 0; L <= K; L++ {
						roots = append(roots, root{C, L, K, 0})
						if L < K && C > 1 {
							for r := 1; r < C; r++ {
								roots = append(roots, root{C, L, K, r})
							}
						}
					}
				}
			}
			type job struct {
				t int
				r root
			}
			var jobs []job
			for t := 0; t < dyn.NB; t++ {
				for _, r := range roots {
					jobs = append(jobs, job{t, r})
				}
			}
			for t := dyn.NB; t < len(dyn.Types); t++ { // named element types: the smallest roots
				for _, r := range roots {
					if r.C <= 2 && r.K <= 2 {
						jobs = append(jobs, job{t, r})
					}
				}
			}
			var nodes, invalid int64
			c.ParallelFor(len(jobs), func(i int) {
				j := jobs[i]
				var n, inv int64
				var rec func(path [][2]int, mcap int)
				rec = func(path [][2]int, mcap int) {
					// extremes at depth 0 and 1 always; deeper only small ranges
					pts := c02Points(j.r.C, mcap, len(path) <= 1)
					for _, s := range pts {
						for _, e := range pts {
							cs := c02Case{Type: tn(j.t), C: j.r.C, L: j.r.L, K: j.r.K, R: j.r.R, Path: path, S: s, E: e}
							valid := s >= 0 && s <= e && e <= mcap
							fs := c02Run(cs)
							c.Check(cs, true, fs)
							n++
							if !valid {
								inv++
							}
							if valid && len(fs) == 0 {
								cs2 := cs
								cs2.Twice = true
								c.Check(cs2, true, c02Run(cs2))
								n++
							}
							if valid && len(path) < maxDepth-1+1 && len(fs) == 0 && len(path)+1 < maxDepth {
								rec(append(append([][2]int{}, path...), [2]int{s, e}), mcap-s)
							}
						}
					}
				}
				rec(nil, j.r.K)
				c.Add("slicings_tested", n)
				c.Add("out_of_range_slicings", inv)
				nodes += 0
			})
			_ = nodes
			_ = invalid
			// roots that were grown by Append before (their capacity is what the library reports afterwards)
			var grownJobs []c02Case
			for _, t := range []int{dyn.Int8, dyn.Int16, dyn.Float64} {
				for C := 1; C <= 3; C++ {
					for L := 1; L <= 5; L++ {
						for G := 1; G <= L; G += 2 {
							K := 0
							if pn, _ := dyn.Try(func() { K = c02Grown(t, C, L, G).Capacity() }); pn || K < L || K > 64 {
								K = L
							}
							grownJobs = append(grownJobs, c02Case{Type: tn(t), C: C, L: L, K: K, G: G})
						}
					}
				}
			}
			c.ParallelFor(len(grownJobs), func(i int) {
				base := grownJobs[i]
				var n int64
				for s := -1; s <= base.K+1; s++ {
					for e := -1; e <= base.K+1; e++ {
						cs := base
						cs.S, cs.E = s, e
						c.Check(cs, true, c02Run(cs))
						n++
					}
				}
				c.Add("slicings_tested", n)
			})
			// every channel count up to 1030 x every length up to 66 frames: the length of the window in frames
			var wide []int
			for C := 1; C <= 1030; C++ {
				wide = append(wide, C)
			}
			c.ParallelFor(len(wide), func(i int) {
				C := wide[i]
				const K = 66
				root := dyn.Alloc(dyn.Int8, al(C, 0, K))
				for e := 0; e <= K; e++ {
					w := root.Slice(0, e)
					want := header{C, 8, C * e, C * K, e, K}
					if h := hdr(w); h != want {
						c.Fail(c02Case{Type: "int8", C: C, L: 0, K: K, S: 0, E: e}, core.Failf("Slice/view", "Alloc[int8](C=%d,L=0,K=%d) Slice(0,%d): the window has shape %+v, want %+v", C, K, e, h, want))
						break
					}
					if e > 2 {
						want2 := header{C, 8, C * 2, C * (K - e + 2), 2, K - e + 2}
						if h := hdr(root.Slice(e-2, e)); h != want2 {
							c.Fail(c02Case{Type: "int8", C: C, L: 0, K: K, S: e - 2, E: e}, core.Failf("Slice/view", "Alloc[int8](C=%d,L=0,K=%d) Slice(%d,%d): the window has shape %+v, want %+v", C, K, e-2, e, h, want2))
							break
						}
					}
				}
				c.Eval(2*K, 2*K)
			})
			// long buffers, sparse ranges
			var bigJobs []job
			for _, t := range []int{dyn.Int8, dyn.Uint16, dyn.Float32, dyn.Int64} {
				for C := 1; C <= 4; C++ {
					for _, K := range []int{17, 100, 1200} {
						for _, L := range []int{0, K / 2, K} {
							bigJobs = append(bigJobs, job{t, root{C, L, K, 0}})
						}
					}
				}
			}
			for _, t := range []int{dyn.Int8, dyn.Float64} { // many channels
				for _, C := range []int{9, 17, 65, 256, 300, 1024} {
					bigJobs = append(bigJobs, job{t, root{C, 1, 3, 0}}, job{t, root{C, 3, 3, 0}})
				}
			}
			for _, C := range []int{1 << 15, 1<<16 - 1, 1 << 16, 1<<16 + 1, 1 << 17, 1<<17 + 1, 1 << 18} { // very many channels (powers of two and neighbours)
				bigJobs = append(bigJobs, job{dyn.Int8, root{C, 1, 4, 0}})
			}
			c.ParallelFor(len(bigJobs), func(i int) {
				j := bigJobs[i]
				K := j.r.K
				var n int64
				light := j.r.C >= 1<<15 // very wide frames: a handful of ranges, no nesting
				pts := func(cp int) []int {
					if light {
						return []int{0, 1, cp - 1, cp, cp + 1}
					}
					return []int{-1, 0, 1, 2, cp / 2, cp - 1, cp, cp + 1, math.MaxInt/j.r.C + 1, math.MinInt}
				}
				for _, s := range pts(K) {
					for _, e := range pts(K) {
						cs := c02Case{Type: tn(j.t), C: j.r.C, L: min2(j.r.L, K), K: K, S: s, E: e}
						fs := c02Run(cs)
						c.Check(cs, true, fs)
						n++
						if s >= 0 && s <= e && e <= K && len(fs) == 0 && !light {
							for _, s2 := range pts(K - s) {
								for _, e2 := range pts(K - s) {
									cs2 := cs
									cs2.Path, cs2.S, cs2.E = [][2]int{{s, e}}, s2, e2
									c.Check(cs2, true, c02Run(cs2))
									n++
								}
							}
						}
					}
				}
				c.Add("slicings_tested", n)
			})
			// many windows of one parent kept alive (recycled headers), every earlier window re-inspected
			for _, t := range []int{dyn.Int8, dyn.Float64} {
				for _, C := range []int{1, 2, 3} {
					K := 12
					root := dyn.Alloc(t, al(C, K, K))
					fill(root, 1)
					type win struct {
						b    dyn.Buf
						s, e int
					}
					var ws []win
					for k := 0; k < 400; k++ {
						s := (k * 5) % (K + 1)
						e := s + (k*3)%(K+1-s)
						w := root.Slice(s, e)
						for _, o := range ws {
							if o.b.Ptr() == w.Ptr() {
								c.Fail(c02Case{Type: tn(t), C: C, L: K, K: K, S: s, E: e}, core.Failf("Slice/header-reused", "slice #%d of one parent (Slice(%d,%d)) returned the same buffer object as an earlier slice (Slice(%d,%d)) that is still in use", k+1, s, e, o.s, o.e))
								k = 400
								break
							}
						}
						ws = append(ws, win{w, s, e})
						if k%16 == 15 || k >= 400 {
							for j, o := range ws {
								want := header{C, dyn.Types[t].Bits, C * (o.e - o.s), C * (K - o.s), o.e - o.s, K - o.s}
								if h := hdr(o.b); h != want {
									c.Fail(c02Case{Type: tn(t), C: C, L: K, K: K, S: o.s, E: o.e}, core.Failf("Slice/window-changed", "window #%d = Slice(%d,%d) had shape %+v when taken and has %+v after %d more slicings of the same parent", j+1, o.s, o.e, want, h, k-j))
									k = 400
									break
								}
							}
						}
						c.Eval(1, 1)
					}
				}
			}
			// a very large parent (more than 2^20 samples) with small windows
			for _, t := range []int{dyn.Int16, dyn.Float32} {
				K := 600000
				for _, se := range [][2]int{{100, 104}, {0, 0}, {K - 4, K}, {K / 2, K/2 + 1}} {
					cs := c02Case{Type: tn(t), C: 2, L: K, K: K, S: se[0], E: se[1]}
					c.Check(cs, true, c02Run(cs))
					cs2 := c02Case{Type: tn(t), C: 2, L: K, K: K, Path: [][2]int{{8, K}}, S: se[0] / 2, E: se[0]/2 + 3}
					c.Check(cs2, true, c02Run(cs2))
				}
			}
			// parents of more than 2^24 samples (beyond what single-precision arithmetic and 24-bit fields hold
			// exactly), windows at the head, in the middle and in the last frames;
			huge := []struct{ C, K int }{{1, 1<<24 + 5}, {2, 1<<23 + 3}, {3, (1<<24)/3 + 7}}
			c.ParallelFor(len(huge), func(i int) {
				g := huge[i]
				K := g.K
				for _, se := range [][2]int{{K - 4, K}, {K - 900, K - 896}, {100, 104}, {K, K}} {
					cs := c02Case{Type: "int8", C: g.C, L: K, K: K, S: se[0], E: se[1]}
					c.Check(cs, true, c02Run(cs))
					if c.Expired() {
						return
					}
				}
				cs2 := c02Case{Type: "int8", C: g.C, L: K, K: K, Path: [][2]int{{7, K}}, S: K - 7 - 3, E: K - 7}
				c.Check(cs2, true, c02Run(cs2))
			})
			c.Sample(c02Case{Type: "int8", C: 4, L: 1, K: 2, R: 0, S: 0, E: 1<<62 + 1})
			c.Sample(c02Case{Type: "float32", C: 2, L: 1, K: 3, R: 1, Path: [][2]int{{1, 2}}, S: 0, E: 2})
			c.Set("rule", fmt.Sprintf("13 element types x C in 1..4 x roots Alloc(C,L,K<=%d) incl. partly filled last frames x nested valid slicings to depth %d x every (start,end) in ([-2,cap+2] + MinInt, MinInt+1, -2^62, MaxInt/C-1..+1, MaxInt-1, MaxInt, and every x with C*x wrapping mod 2^64 to 0..cap+1)^2; each (root, path, start, end) is enumerated once (distinct by construction) and every one is non-trivial (either a view whose aliasing is checked cell by cell, or a range that must panic); every valid one of them a second time after the same range was sliced before and that first window appended to; roots grown by Append first (1-3 channels, up to 5 frames), every range in [-1,cap+1]^2; every channel count 1..1030 x every window length 0..66 (shape only); plus sparse ranges on roots of 17, 100, 1200 frames and of 9-65 channels, 400 windows of one parent kept alive and re-inspected, small windows of a 1.2-million-sample parent, windows (head, middle, last frames) of parents of 2^24+5, 2*(2^23+3) and 3*(2^24/3+7) samples, and 2^15..2^18 channels (powers of two and neighbours)", maxK, maxDepth))
			c.Assume("the storage is observed through root.Slice(0,K); a Slice broken so that this observer is not an alias makes the alias checks fail rather than pass", "linux/amd64, 64-bit int")
		},
		RunCase: func(c *core.Ctx, raw json.RawMessage) []F { return c02Run(decode[c02Case](raw)) },
	})
}

func min2(a, b int) int {
	if a < b {
		return a
	}
	return b
}
