package props

import (
	"encoding/json"
	"fmt"
	"math"
	"math/big"
	"math/bits"
	"time"

	"pipelined.dev/signal"
	"verif/mc/core"
)

// C17 — Frequency converts between event counts and durations consistently.
// Rates are multiples of 1/8 Hz: F8 = 8*f is an integer, so the oracle is exact integer
// arithmetic (128-bit products).

type c17Case struct {
	F8 int64  // 8 * frequency
	Fn string // duration | events | roundtrip | duration-order | events-order
	N  int64  // event count / duration in ns (the larger argument for the order cases)
	// FB, when non-zero, is the rate as float64 bits (any rate, not only multiples of 1/8 Hz); the oracle
	// is then exact rational arithmetic (math/big) instead of 128-bit integers
	FB uint64 `json:"rate_bits,omitempty"`
}

const day = int64(86400) * 1e9

// absDiff128 returns |a*b - c*d| as a float64 (a,b,c,d >= 0), exactly computed in 128 bits
// before the final conversion.
func absDiff128(a, b, c, d uint64) float64 {
	h1, l1 := bits.Mul64(a, b)
	h2, l2 := bits.Mul64(c, d)
	var hi, lo, br uint64
	if h1 > h2 || (h1 == h2 && l1 >= l2) {
		lo, br = bits.Sub64(l1, l2, 0)
		hi, _ = bits.Sub64(h1, h2, br)
	} else {
		lo, br = bits.Sub64(l2, l1, 0)
		hi, _ = bits.Sub64(h2, h1, br)
	}
	return math.Ldexp(float64(hi), 64) + float64(lo)
}

func ulp(x float64) float64 { x = math.Abs(x); return math.Nextafter(x, math.Inf(1)) - x }

// c17RunAny: any positive finite rate, oracle in math/big.
func c17RunAny(cs c17Case) (fs []F) {
	hz := math.Float64frombits(cs.FB)
	f := signal.Frequency(hz)
	fail := func(kind, format string, a ...any) {
		fs = append(fs, F{Key: "Frequency/" + kind, Msg: fmt.Sprintf("f=%v Hz (bits %#x): ", hz, cs.FB) + fmt.Sprintf(format, a...)})
	}
	rf := new(big.Rat).SetFloat64(hz)
	e9 := big.NewRat(1e9, 1)
	off := func(got int64, exact *big.Rat) (float64, float64) {
		d := new(big.Rat).Sub(new(big.Rat).SetInt64(got), exact)
		x, _ := d.Abs(d).Float64()
		ex, _ := exact.Float64()
		return x, ex
	}
	switch cs.Fn {
	case "duration":
		d := int64(f.Duration(int(cs.N)))
		exact := new(big.Rat).Quo(new(big.Rat).Mul(big.NewRat(cs.N, 1), e9), rf)
		if diff, ex := off(d, exact); d < 0 || diff > 0.5+4*ulp(ex)+1e-9*0.5 {
			fail("duration", "Duration(%d) = %d ns, exact %.6f ns: off by %.6f ns, more than half a nanosecond plus rounding", cs.N, d, ex, diff)
		}
	case "events":
		e := int64(f.Events(time.Duration(cs.N)))
		exact := new(big.Rat).Quo(new(big.Rat).Mul(big.NewRat(cs.N, 1), rf), e9)
		if diff, ex := off(e, exact); e < 0 || diff > 0.5+4*ulp(ex)+1e-9*0.5 {
			fail("events", "Events(%d ns) = %d, exact %.6f: off by %.6f, more than half an event plus rounding", cs.N, e, ex, diff)
		}
	default:
		cs2 := cs
		cs2.FB = 0
		return c17RunF(cs2, f)
	}
	return
}

func c17Run(cs c17Case) (fs []F) {
	if cs.FB != 0 {
		return c17RunAny(cs)
	}
	return c17RunF(cs, signal.Frequency(float64(cs.F8)/8))
}

func c17RunF(cs c17Case, f signal.Frequency) (fs []F) {
	fail := func(kind, format string, a ...any) {
		fs = append(fs, F{Key: "Frequency/" + kind, Msg: fmt.Sprintf("f=%v Hz: ", float64(f)) + fmt.Sprintf(format, a...)})
	}
	switch cs.Fn {
	case "duration":
		d := int64(f.Duration(int(cs.N)))
		if d < 0 {
			fail("duration", "Duration(%d) = %d < 0", cs.N, d)
			break
		}
		exact := 1e9 * float64(cs.N) / float64(f)
		// |d - 1e9*n/f| = |d*F8 - 8e9*n| / F8
		diff := absDiff128(uint64(d), uint64(cs.F8), 8e9, uint64(cs.N)) / float64(cs.F8)
		if diff > 0.5+4*ulp(exact)+1e-9*0.5 {
			fail("duration", "Duration(%d) = %d ns, exact %.6f ns: off by %.6f ns, more than half a nanosecond plus rounding", cs.N, d, exact, diff)
		}
	case "events":
		e := int64(f.Events(time.Duration(cs.N)))
		if e < 0 {
			fail("events", "Events(%d ns) = %d < 0", cs.N, e)
			break
		}
		exact := float64(f) * float64(cs.N) / 1e9
		diff := absDiff128(uint64(e), 8e9, uint64(cs.F8), uint64(cs.N)) / 8e9
		if diff > 0.5+4*ulp(exact)+1e-9*0.5 {
			fail("events", "Events(%d ns) = %d, exact %.6f: off by %.6f, more than half an event plus rounding", cs.N, e, exact, diff)
		}
	case "roundtrip":
		d := f.Duration(int(cs.N))
		if e := f.Events(d); int64(e) != cs.N {
			fail("roundtrip", "Events(Duration(%d)) = Events(%d ns) = %d", cs.N, int64(d), e)
		}
	case "duration-order":
		a, b := f.Duration(int(cs.N-1)), f.Duration(int(cs.N))
		if b < a {
			fail("duration-order", "Duration(%d) = %d > Duration(%d) = %d", cs.N-1, a, cs.N, b)
		}
	case "events-order":
		a, b := f.Events(time.Duration(cs.N-1)), f.Events(time.Duration(cs.N))
		if b < a {
			fail("events-order", "Events(%d) = %d > Events(%d) = %d", cs.N-1, a, cs.N, b)
		}
	}
	return
}

// tieSolutions returns the n in [0, max] (at most lim of them, spread: the first lim/2 and
// last lim/2) with n*m = h (mod q): the arguments whose exact image has fractional part 1/2.
func tieSolutions(m, h, q, max int64, lim int) []int64 {
	g := new(big.Int).GCD(nil, nil, big.NewInt(m), big.NewInt(q)).Int64()
	if h%g != 0 {
		return nil
	}
	q2 := q / g
	inv := new(big.Int).ModInverse(big.NewInt((m/g)%q2), big.NewInt(q2))
	if inv == nil {
		if q2 == 1 {
			inv = big.NewInt(0)
		} else {
			return nil
		}
	}
	n0 := new(big.Int).Mul(inv, big.NewInt((h/g)%q2))
	n0.Mod(n0, big.NewInt(q2))
	first := n0.Int64()
	if first > max {
		return nil
	}
	count := (max-first)/q2 + 1
	var out []int64
	for i := int64(0); i < count && i < int64(lim/2); i++ {
		out = append(out, first+i*q2)
	}
	for i := count - int64(lim/2); i < count; i++ {
		if i >= int64(lim/2) {
			out = append(out, first+i*q2)
		}
	}
	return out
}

func init() {
	core.Register(&core.Prop{
		ID: "C17", Level: "exploration", Design: "§5 C17",
		Run: func(c *core.Ctx) {
			std := []int64{8000, 11025, 16000, 22050, 32000, 44100, 48000, 88200, 96000, 176400, 192000, 352800, 384000, 2822400, 5644800}
			type job struct {
				f8    int64
				dense int64 // n in 0..dense
			}
			var jobs []job
			denseStd, denseInt := int64(200000), int64(64)
			if !c.Quick() {
				denseStd, denseInt = 20000000, 256
			}
			for _, r := range std {
				for j := int64(0); j < 8; j++ {
					d := denseStd
					if j != 0 {
						d = denseStd / 10
					}
					jobs = append(jobs, job{8*r + j, d})
				}
			}
			for r := int64(1); r <= 1000000; r++ {
				jobs = append(jobs, job{8 * r, denseInt})
				if r <= 2000 {
					for j := int64(1); j < 8; j++ {
						jobs = append(jobs, job{8*r + j, denseInt})
					}
				}
			}
			for j := int64(1); j < 8; j++ { // rates below 1 Hz
				jobs = append(jobs, job{j, denseInt})
			}
			c.ParallelFor(len(jobs), func(i int) {
				jb := jobs[i]
				var n int64
				chk := func(fn string, arg int64) {
					cs := c17Case{F8: jb.f8, Fn: fn, N: arg}
					n++
					if fs := c17Run(cs); len(fs) > 0 {
						c.Fail(cs, fs...)
					}
				}
				maxN := jb.f8 * 86400 / 8 // events in 24 h
				count := func(k int64) {
					if k < 0 || k > maxN {
						return
					}
					chk("duration", k)
					if k > 0 {
						chk("duration-order", k)
					}
					if jb.f8 <= 8*1000000 {
						chk("roundtrip", k)
					}
				}
				dur := func(d int64) {
					if d < 0 || d > day {
						return
					}
					chk("events", d)
					if d > 0 {
						chk("events-order", d)
					}
				}
				f := signal.Frequency(float64(jb.f8) / 8)
				for k := int64(0); k <= jb.dense && k <= maxN; k++ {
					count(k)
					d := int64(f.Duration(int(k)))
					dur(d - 1)
					dur(d)
					dur(d + 1)
				}
				w := int64(1000)
				if jb.dense < 1000 {
					w = 24
				}
				for k := maxN - w; k <= maxN; k++ {
					count(k)
				}
				for d := day - w; d <= day; d++ {
					dur(d)
				}
				// rounding ties: 1e9*n/f = x.5  <=>  n*8e9 = F8/2 (mod F8), F8 even
				if jb.f8%2 == 0 {
					for _, t := range tieSolutions(8e9, jb.f8/2, jb.f8, maxN, 40) {
						for k := t - 2; k <= t+2; k++ {
							count(k)
						}
					}
				}
				// f*d/1e9 = x.5  <=>  d*F8 = 4e9 (mod 8e9)
				for _, t := range tieSolutions(jb.f8, 4e9, 8e9, day, 40) {
					for d := t - 2; d <= t+2; d++ {
						dur(d)
					}
				}
				// where the natural intermediate products cross a power of two: d*f and n*1e9 around 2^31,
				// 2^32, 2^53, 2^62, 2^63, 2^64 (and those minus the rounding addends 5e8 / f/2)
				if jb.f8%8 == 0 {
					r := jb.f8 / 8
					for _, k := range []uint{31, 32, 53, 62, 63, 64} {
						top := new(big.Int).Lsh(big.NewInt(1), k)
						for _, sub := range []int64{0, 1, 5e8, 1e9, r / 2, r} {
							x := new(big.Int).Sub(top, big.NewInt(sub))
							qd := new(big.Int).Div(x, big.NewInt(r))   // durations with d*r near 2^k
							qn := new(big.Int).Div(x, big.NewInt(1e9)) // counts with n*1e9 near 2^k
							for dl := int64(-3); dl <= 3; dl++ {
								if qd.IsInt64() {
									dur(qd.Int64() + dl)
								}
								if qn.IsInt64() {
									count(qn.Int64() + dl)
								}
							}
						}
					}
				}
				if jb.dense >= 1000 { // every whole second up to 24 h
					for s := int64(0); s <= 86400; s++ {
						dur(s * 1e9)
					}
				}
				c.Eval(n, n)
			})
			// rates that are not multiples of 1/8 Hz: next to whole rates at every decimal and binary scale
			// (r +- 10^-k, r(1 +- 2^-k)), pulled-down and thirds; oracle in exact rational arithmetic
			var anyRates []float64
			for _, r := range []float64{1, 2, 3, 10, 50, 1000, 8000, 44100, 48000, 96000, 192000, 1e6} {
				for k := 1; k <= 15; k++ {
					anyRates = append(anyRates, r+math.Pow(10, -float64(k)), r-math.Pow(10, -float64(k)), r+5*math.Pow(10, -float64(k)), r-5*math.Pow(10, -float64(k)))
				}
				for k := 8; k <= 52; k += 4 {
					anyRates = append(anyRates, r*(1+math.Ldexp(1, -k)), r*(1-math.Ldexp(1, -k)))
				}
				anyRates = append(anyRates, r/1.001, r*1.001, r+1.0/3, r+0.1, math.Nextafter(r, 0), math.Nextafter(r, 2*r))
			}
			c.ParallelFor(len(anyRates), func(i int) {
				hz := anyRates[i]
				if !(hz > 0) {
					return
				}
				fb := math.Float64bits(hz)
				var n int64
				chk := func(fn string, arg int64) {
					cs := c17Case{Fn: fn, N: arg, FB: fb}
					n++
					if fs := c17Run(cs); len(fs) > 0 {
						c.Fail(cs, fs...)
					}
				}
				maxN := int64(hz * 86400)
				f := signal.Frequency(hz)
				count := func(k int64) {
					if k < 0 || k > maxN {
						return
					}
					chk("duration", k)
					if k > 0 {
						chk("duration-order", k)
					}
					if hz <= 1e6 {
						chk("roundtrip", k)
					}
					d := int64(f.Duration(int(k)))
					for _, dd := range []int64{d - 1, d, d + 1} {
						if dd >= 0 && dd <= day {
							chk("events", dd)
							if dd > 0 {
								chk("events-order", dd)
							}
						}
					}
				}
				for k := int64(0); k <= 200; k++ {
					count(k)
				}
				for _, sec := range []int64{1, 60, 3600, 86400} {
					for dl := int64(-2); dl <= 2; dl++ {
						count(int64(hz*float64(sec)) + dl)
						if d := sec*1e9 + dl; d <= day {
							chk("events", d)
						}
					}
				}
				c.Eval(n, n)
			})
			c.Set("rates_off_the_eighth_hertz_lattice", len(anyRates))
			c.Sample(c17Case{F8: 8 * 44100, Fn: "duration", N: 44100 * 86400})
			c.Sample(c17Case{F8: 8*48000 + 3, Fn: "events", N: day})
			c.Sample(c17Case{F8: 8 * 1000000, Fn: "roundtrip", N: 86400000000})
			c.Set("exhaustive", false)
			c.Set("rates", len(jobs))
			c.Set("rule", fmt.Sprintf("rates: the 15 standard audio rates and their 7 fractional neighbours r+j/8, every integer rate 1..10^6, the fractional lattice r+j/8 for r<=2000, j/8 Hz, and (exact rational oracle, counts 0..200 and around 1 s, 1 min, 1 h, 24 h) the neighbours r +- 10^-k, r +- 5*10^-k (k=1..15), r(1 +- 2^-k), r/1.001, r*1.001, r+1/3, r+0.1 and the adjacent floats of 12 whole rates; per lattice rate: every count 0..N (N=%d for standard rates, %d otherwise), every count within the last window before f*86400, +-2 around every rounding tie (first and last 20 ties in range), for Events the images of those counts +-1 ns, the last window before 24 h, the ties, every whole second up to 24 h for the standard rates, and (integer rates) +-3 around every argument where d*f or n*10^9 crosses 2^31, 2^32, 2^53, 2^62, 2^63, 2^64 (also minus the rounding addends); bounded-exhaustive within these windows (the full domain is a continuum x 10^11, hence exhaustive:false); every evaluation is a distinct (rate, function, argument) and non-trivial", denseStd, denseInt))
			c.Assume("rates are multiples of 1/8 Hz so that the oracle is exact integer arithmetic", "float rounding slack: 4 ulp of the exact value")
		},
		RunCase: func(c *core.Ctx, raw json.RawMessage) []F { return c17Run(decode[c17Case](raw)) },
	})
}
