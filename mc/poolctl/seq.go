//go:build verif

// Package poolctl implements verifsync.Controller for the explorers.
package poolctl

import (
	vs "pipelined.dev/signal/verifsync"
	"verif/mc/schedx"
)

// Seq is the controller of one sequential history (bound to one goroutine).  Which item a
// Get returns is decided by Choose; items live in per-pool free lists that the oracle can
// inspect.
type Seq struct {
	Free map[*vs.Pool][]any
	// Choose returns an index into the free list (length n) or n for "call New".
	Choose func(n int) int
	Gets   int
	Puts   int
	News   int
	held   map[*vs.Mutex]bool
	g      uintptr
}

func NewSeq(choose func(n int) int) *Seq {
	return &Seq{Free: map[*vs.Pool][]any{}, Choose: choose, held: map[*vs.Mutex]bool{}}
}

func (s *Seq) PoolGet(p *vs.Pool) (any, bool, bool) {
	if schedx.G() != s.g {
		return nil, false, false // not the goroutine this controller is bound to
	}
	s.Gets++
	fl := s.Free[p]
	k := len(fl)
	if s.Choose != nil {
		k = s.Choose(len(fl))
	}
	if k >= len(fl) {
		s.News++
		return nil, false, true
	}
	x := fl[k]
	s.Free[p] = append(append([]any{}, fl[:k]...), fl[k+1:]...)
	return x, true, true
}

func (s *Seq) PoolPut(p *vs.Pool, x any) bool {
	if schedx.G() != s.g {
		return false
	}
	s.Puts++
	s.Free[p] = append(s.Free[p], x)
	return true
}

// FreeCount is the total number of pooled items.
func (s *Seq) FreeCount() int {
	n := 0
	for _, fl := range s.Free {
		n += len(fl)
	}
	return n
}

// AllFree returns every pooled item.
func (s *Seq) AllFree() []any {
	var r []any
	for _, fl := range s.Free {
		r = append(r, fl...)
	}
	return r
}

func (s *Seq) Lock(m *vs.Mutex) bool {
	if schedx.G() != s.g {
		return false
	}
	if s.held[m] {
		panic("verif: sequential history locks a mutex it already holds (deadlock)")
	}
	s.held[m] = true
	return true
}

func (s *Seq) Unlock(m *vs.Mutex) bool {
	if schedx.G() != s.g {
		return false
	}
	delete(s.held, m)
	return true
}

// Bind attaches s to the calling goroutine; the returned function detaches it.
func (s *Seq) Bind() func() {
	s.g = schedx.G()
	vs.Bind(s)
	return vs.Unbind
}

func (s *Seq) Spawn(fn func()) bool                    { return false }
func (s *Seq) Point(label string) bool                 { return false }
func (s *Seq) WaitZero(word *int32, label string) bool { return false }
