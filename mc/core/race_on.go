//go:build race

package core

import "runtime"

// RaceEnabled reports whether this binary was built with -race.
const RaceEnabled = true

// RaceErrors is the number of data races the detector has reported so far.
func RaceErrors() int { return runtime.RaceErrors() }
