package props

import (
	"encoding/json"
	"fmt"
	"math"
	"time"

	"verif/mc/core"
	"verif/mc/dyn"
)

// C05 — conversions act position-wise on the common prefix and touch nothing else.

type c05Case struct {
	S, D           string
	C              int
	SP, SX, SL, SR int // source: root of SP frames, window [SX,SX+SL) + SR samples
	DP, DX, DL, DR int // destination likewise
	Rot            int // rotation of the value alphabet
}

func c05Alphabet(s int, toFloat bool) []dyn.Val {
	ty := dyn.Types[s]
	switch ty.Kind {
	case dyn.Signed:
		lo, hi := minAmp(ty.Bits), maxAmp(ty.Bits)
		return []dyn.Val{dyn.I(lo), dyn.I(lo + 1), dyn.I(-1), dyn.I(0), dyn.I(1), dyn.I(hi/2 + 1), dyn.I(-(hi/2 + 1)), dyn.I(hi - 1), dyn.I(hi), dyn.I(3), dyn.I(-77)}
	case dyn.Unsigned:
		var max uint64 = math.MaxUint64
		if ty.Bits < 64 {
			max = 1<<uint(ty.Bits) - 1
		}
		mid := max/2 + 1
		return []dyn.Val{dyn.U(0), dyn.U(1), dyn.U(mid - 1), dyn.U(mid), dyn.U(mid + 1), dyn.U(max - 1), dyn.U(max), dyn.U(mid / 2), dyn.U(mid + mid/2), dyn.U(77)}
	default:
		big := 2 * float64(math.MaxFloat32)
		if ty.Bits == 32 {
			big = math.MaxFloat32
		}
		vs := []dyn.Val{dyn.F(0), dyn.F(math.Copysign(0, -1)), dyn.F(0.5), dyn.F(-0.5), dyn.F(1), dyn.F(-1), dyn.F(1.5), dyn.F(-1.5),
			dyn.F(big), dyn.F(-big), dyn.F(math.Inf(1)), dyn.F(math.Inf(-1)), dyn.F(0.001), dyn.F(-0.25), dyn.F(0.9999), dyn.F(1e-30), dyn.F(300), dyn.F(-70000)}
		if ty.Bits == 64 {
			vs = append(vs, dyn.F(0.1), dyn.F(1+1e-12), dyn.F(math.MaxFloat64), dyn.F(5e-324))
		}
		if toFloat {
			vs = append(vs, dyn.F(math.NaN()))
		}
		return vs
	}
}

func sameBits(a, b dyn.Val) bool {
	if a.K == dyn.Float && b.K == dyn.Float && math.IsNaN(a.Float()) && math.IsNaN(b.Float()) {
		return true
	}
	return a == b
}

func c05Run(cs c05Case) []F {
	return core.Guard("conversion", func() []F { return c05RunRaw(cs) })
}

func c05RunRaw(cs c05Case) (fs []F) {
	s, d := typeByName(cs.S), typeByName(cs.D)
	name := dyn.ConvName(s, d)
	fail := func(kind, format string, a ...any) {
		fs = append(fs, core.Failf(name+"/"+kind, "%s[%s,%s] %+v: %s", name, cs.S, cs.D, cs, fmt.Sprintf(format, a...)))
	}
	C := cs.C
	sroot := dyn.Alloc(s, al(C, cs.SP, cs.SP))
	droot := dyn.Alloc(d, al(C, cs.DP, cs.DP))
	src := sroot.Slice(cs.SX, cs.SX+cs.SL)
	dst := droot.Slice(cs.DX, cs.DX+cs.DL)
	for i := 0; i < cs.SR; i++ {
		src.AppendSample(dyn.Tok(s, 0))
	}
	for i := 0; i < cs.DR; i++ {
		dst.AppendSample(dyn.Tok(d, 0))
	}
	alpha := c05Alphabet(s, dyn.Types[d].Kind == dyn.Float)
	scells := make([]dyn.Val, sroot.Len())
	for i := range scells {
		sroot.SetSample(i, alpha[(i+cs.Rot)%len(alpha)])
		scells[i] = sroot.Sample(i) // the alphabet value as the element type represents it
	}
	sent := dyn.Tok(d, 77)
	for i := 0; i < droot.Len(); i++ {
		droot.SetSample(i, sent)
	}
	hs, hd, hsr, hdr0 := hdr(src), hdr(dst), hdr(sroot), hdr(droot)
	var ret int
	if p, msg := dyn.Try(func() { ret = dyn.Conv(src, dst) }); p {
		fail("panic", "panicked: %s", msg)
		return
	}
	sn, dn := C*cs.SL+cs.SR, C*cs.DL+cs.DR
	n := sn
	if dn < n {
		n = dn
	}
	wantRet := ceilDiv(sn, C)
	if x := ceilDiv(dn, C); x < wantRet {
		wantRet = x
	}
	if ret != wantRet {
		fail("return", "returned %d, want min of the per-channel lengths = %d", ret, wantRet)
	}
	if hdr(src) != hs || hdr(dst) != hd || hdr(sroot) != hsr || hdr(droot) != hdr0 {
		fail("shape", "a buffer's length or capacity changed")
	}
	for i, w := range scells {
		if g := sroot.Sample(i); !sameBits(g, w) {
			fail("source-changed", "source storage position %d changed from %v to %v", i, w, g)
			break
		}
	}
	// reference: the same function on each sample alone in a 1x1 buffer
	s1 := dyn.Alloc(s, al(1, 1, 1))
	d1 := dyn.Alloc(d, al(1, 1, 1))
	soff, doff := C*cs.SX, C*cs.DX
	for i := 0; i < droot.Len(); i++ {
		g := droot.Sample(i)
		k := i - doff
		if k < 0 || k >= n {
			if !sameBits(g, sent) {
				fail("outside-prefix", "destination storage position %d (window position %d, common prefix %d) was overwritten with %v", i, k, n, g)
				break
			}
			continue
		}
		v := scells[soff+k]
		s1.SetSample(0, v)
		d1.SetSample(0, sent)
		dyn.Conv(s1, d1)
		want := d1.Sample(0)
		// "depends only on source sample k and the two formats": not on what the destination held
		d1.SetSample(0, dyn.Tok(d, 33))
		dyn.Conv(s1, d1)
		if w2 := d1.Sample(0); !sameBits(w2, want) {
			fail("depends-on-destination", "converting source value %v alone gives %v into a destination holding 77 but %v into one holding 33", v, want, w2)
			break
		}
		// ... nor on the destination already holding something that compares equal to the result (both zeros)
		zeros := []dyn.Val{dyn.Tok(d, 0)}
		if dyn.Types[d].Kind == dyn.Float {
			zeros = append(zeros, dyn.F(math.Copysign(0, -1)))
		}
		for _, z := range zeros {
			d1.SetSample(0, z)
			dyn.Conv(s1, d1)
			if w3 := d1.Sample(0); !sameBits(w3, want) {
				fail("depends-on-destination", "converting source value %v (bits %#x) alone gives %v (bits %#x) into a destination holding 77 but %v (bits %#x) into one holding %v (bits %#x)", v, v.B, want, want.B, w3, w3.B, z, z.B)
				break
			}
		}
		if !sameBits(g, want) {
			fail("positionwise", "result %d is %v but converting source sample %d (%v) alone gives %v", k, g, k, v, want)
			break
		}
		if name == "FloatAsFloat" {
			exp := v
			if dyn.Types[d].Bits < dyn.Types[s].Bits {
				exp = dyn.F(float64(float32(v.Float())))
			}
			if !sameBits(g, exp) {
				fail("float-value", "float->float changed %v into %v (want %v)", v, g, exp)
				break
			}
		}
	}
	return
}

func init() {
	core.Register(&core.Prop{
		ID: "C05", Level: "exploration", Design: "§5 C05",
		Worker: core.SweepWorker,
		Run: func(c *core.Ctx) {
			// "result k depends only on source sample k and the two formats": not on its neighbours, its
			// position in a long buffer, the instantiation used before, or the order of use in the process
			// (these passes run after the small-scope enumeration below: when the time budget is short it
			// is the supplementary passes that are cut, not the exhaustive core)
			all := func(s, d int) bool { return true }
			t0 := time.Now()
			phases := map[string]float64{}
			// first use of every instantiation: sequentially, in a fixed order, before anything else converts
			digests := ctxDigests(all)
			c.Set("ctx_digests", digests)
			contextPasses := func() {
				t1 := time.Now()
				defer func() { phases["context_passes_s"] = time.Since(t1).Seconds(); c.Set("phase_seconds", phases) }()
				if core.Reversed() {
					ctxPasses(c, "C05", nil, true, all)
					return
				}
				wait := c.ReverseOrderPassAsync("mc-shim") // a process of its own, meanwhile
				ctxPasses(c, "C05", nil, true, all)
				if res := wait(); res != nil {
					ctxCompareDigests(c, digests, res.Digests)
				}
			}
			if core.Reversed() {
				contextPasses() // the reverse-order process only contributes its digests and context passes
				return
			}
			defer contextPasses()
			// floating-to-floating conversion preserves every value: lattices of all sign/exponent/top-
			// mantissa patterns (NaN payloads aside), exact when not narrowing, float32(x) when narrowing
			type ff struct {
				s, d int
				n    int64
				at   func(int64) float64
			}
			// float64 values around the points where narrowing to float32 changes its behaviour: every power of
			// two from the smallest denormal to beyond the largest float32, the largest float32 itself and
			// the values just below 2^k (all-ones mantissa in float32), each with its float64 neighbours,
			// the rounding ties half a float32 step away and the neighbours of those ties; both signs
			var edge []float64
			for e := -151; e <= 129; e++ {
				p := math.Ldexp(1, e)
				ulp32 := math.Ldexp(1, e-23)
				if e < -126 {
					ulp32 = math.Ldexp(1, -149)
				}
				for _, b := range []float64{p, p - ulp32/2, p - ulp32/4, p + ulp32/2, p + ulp32, p + 3*ulp32/2} {
					for _, x := range []float64{b, math.Nextafter(b, math.Inf(1)), math.Nextafter(b, math.Inf(-1))} {
						edge = append(edge, x, -x)
					}
				}
			}
			for _, b := range []float64{math.MaxFloat32, math.MaxFloat32 + math.Ldexp(1, 102), math.MaxFloat32 + math.Ldexp(1, 103), math.MaxFloat32 + math.Ldexp(1, 104), math.MaxFloat64} {
				for _, x := range []float64{b, math.Nextafter(b, math.Inf(1)), math.Nextafter(b, math.Inf(-1))} {
					edge = append(edge, x, -x)
				}
			}
			edgeAt := func(i int64) float64 { return edge[i] }
			for _, f := range []ff{{dyn.Float64, dyn.Float32, int64(len(edge)), edgeAt}, {dyn.Float64, dyn.Float64, int64(len(edge)), edgeAt},
				{dyn.Float32, dyn.Float32, 2 * f32LatM, f32Lattice}, {dyn.Float32, dyn.Float64, 2 * f32LatM, f32Lattice},
				{dyn.Float64, dyn.Float64, 2 * f64LatM, f64Lattice}, {dyn.Float64, dyn.Float32, 2 * f64LatM, f64Lattice}} {
				f := f
				c.ParallelFor(16, func(sh int) {
					conv := dyn.ConvBlockCh(f.s, f.d, blockN, 1+sh%3)
					in := make([]uint64, blockN)
					out := make([]uint64, blockN)
					lo, hi := f.n*int64(sh)/16, f.n*int64(sh+1)/16
					var n int64
					for i := lo; i < hi; {
						k := 0
						for ; k < blockN && i < hi; k, i = k+1, i+1 {
							in[k] = math.Float64bits(f.at(i))
						}
						conv(in[:k], out[:k])
						for j := 0; j < k; j++ {
							x := math.Float64frombits(in[j])
							want := x
							if f.d == dyn.Float32 {
								want = float64(float32(x))
							}
							if g := math.Float64frombits(out[j]); math.Float64bits(g) != math.Float64bits(want) {
								cs := c05Case{S: tn(f.s), D: tn(f.d), C: 1, SP: 1, SL: 1, DP: 1, DL: 1}
								c.Fail(cs, core.Failf("FloatAsFloat/float-value", "FloatAsFloat[%s,%s]: %v became %v, want %v (bit-exact; nearest float32 when narrowing; never clipped)", tn(f.s), tn(f.d), x, g, want))
								return
							}
						}
						n += int64(k)
					}
					c.Eval(n, n)
					c.Add("float_to_float_lattice_values", n)
				})
			}
			maxC, maxP := 3, 3
			if !c.Quick() {
				maxC, maxP = 4, 4
			}
			type side struct{ P, X, L, R int }
			sides := func(C int) []side {
				var r []side
				for P := 0; P <= maxP; P++ {
					for X := 0; X <= P; X++ {
						for L := 0; X+L <= P; L++ {
							r = append(r, side{P, X, L, 0})
							if X+L < P {
								for k := 1; k < C; k++ {
									r = append(r, side{P, X, L, k})
								}
							}
						}
					}
				}
				return r
			}
			type job struct{ s, d int }
			var jobs []job
			for s := 0; s < dyn.NB; s++ {
				for d := 0; d < dyn.NB; d++ {
					jobs = append(jobs, job{s, d})
				}
			}
			for _, p := range dyn.NamedPairs() { // and 104 instantiations with a named element type on one side
				jobs = append(jobs, job{p[0], p[1]})
			}
			c.ParallelFor(len(jobs), func(ji int) {
				jb := jobs[ji]
				var n, nt int64
				rot := 0
				for C := 1; C <= maxC; C++ {
					ss := sides(C)
					for _, a := range ss {
						for _, b := range ss {
							cs := c05Case{S: tn(jb.s), D: tn(jb.d), C: C, SP: a.P, SX: a.X, SL: a.L, SR: a.R, DP: b.P, DX: b.X, DL: b.L, DR: b.R, Rot: rot}
							rot++
							n++
							if C*a.L+a.R > 0 && C*b.L+b.R > 0 {
								nt++
							}
							if fs := c05Run(cs); len(fs) > 0 {
								c.Fail(cs, fs...)
							}
						}
					}
				}
				namedJob := dyn.Types[jb.s].Named || dyn.Types[jb.d].Named
				// large shapes, sparsely (size-threshold fast paths)
				for C := 1; C <= 3 && !namedJob; C++ {
					for _, P := range []int{9, 33, 130, 1025} {
						ws := []side{{P, 0, P, 0}, {P, 1, P - 2, 0}, {P, P / 2, P / 3, 0}}
						if C > 1 {
							ws = append(ws, side{P, 2, P - 4, 1})
						}
						for _, a := range ws {
							for _, b := range ws {
								cs := c05Case{S: tn(jb.s), D: tn(jb.d), C: C, SP: a.P, SX: a.X, SL: a.L, SR: a.R, DP: b.P, DX: b.X, DL: b.L, DR: b.R, Rot: rot}
								rot++
								n++
								nt++
								if fs := c05Run(cs); len(fs) > 0 {
									c.Fail(cs, fs...)
								}
							}
						}
					}
				}
				for _, C := range []int{8, 9, 17, 65, 256, 300} { // many channels
					ws := []side{{3, 0, 3, 0}, {3, 1, 2, 0}, {3, 0, 2, C - 1}, {3, 1, 1, 1}}
					for _, a := range ws {
						for _, b := range ws {
							cs := c05Case{S: tn(jb.s), D: tn(jb.d), C: C, SP: a.P, SX: a.X, SL: a.L, SR: a.R, DP: b.P, DX: b.X, DL: b.L, DR: b.R, Rot: rot}
							rot++
							n++
							nt++
							if fs := c05Run(cs); len(fs) > 0 {
								c.Fail(cs, fs...)
							}
						}
					}
				}
				c.Eval(n, nt)
			})
			phases["small_scope_and_large_shapes_s"] = time.Since(t0).Seconds()
			c.Sample(c05Case{S: "float64", D: "int16", C: 2, SP: 3, SX: 1, SL: 1, SR: 1, DP: 2, DX: 0, DL: 2, Rot: 5})
			c.Set("rule", fmt.Sprintf("all 169 instantiations x C in 1..%d x source window x destination window (each: root of P<=%d frames, every start/length, partly filled last frames) with a per-format value alphabet (type bounds, +-1, 0, mid-scale; float sources also +-0, +-0.5, +-1, +-1.5, +-2*MaxFloat32, +-Inf, tiny, large; NaN for float->float) rotated through the positions; oracle: result k equals what the same function gives for source sample k alone in a 1x1 buffer, everything outside the common prefix still holds sentinels, source and all shapes unchanged, return = min per-channel length; float->float bit-identical / nearest float32; non-trivial = both windows non-empty; plus a sparse set of large shapes (roots of 9, 33, 130, 1025 frames, 3-4 windows per side) for all 169 instantiations; plus the context passes for all 169 instantiations (every result must equal the result of converting that value alone: all ordered pairs of special values at every lane offset in buffers of > 4096 samples with 1-3 channels; a single special at each position 0..130 among 200 calm samples; every ordered pair of the 169 instantiations back to back) and a comparison of the isolated results with a fresh process that uses the instantiations in the opposite order", maxC, maxP))
			c.Assume("the value-level meaning of each conversion is the subject of C06-C09; here the single-sample result of the same function is the reference")
		},
		RunCase: func(c *core.Ctx, raw json.RawMessage) []F {
			if isCtxCase(raw) {
				return ctxReplay(c, raw, nil, true)
			}
			return c05Run(decode[c05Case](raw))
		},
	})
}
