package dyn

import (
	"runtime"
	"testing"
	"unsafe"

	"pipelined.dev/signal"
)

// Allocation measurements that must bypass the dynamic wrappers (which box their results).

var (
	sinkPtr unsafe.Pointer
	sinkInt int
)

// AllocsSlice is the average number of heap allocations of one b.Slice(s, e).
func (w bufW[T]) AllocsSlice(s, e, runs int) float64 {
	return testing.AllocsPerRun(runs, func() { sinkPtr = unsafe.Pointer(w.b.Slice(s, e)) })
}

// AllocsChannel measures taking the channel view ch and using all its methods (Length >= 1).
func (w bufW[T]) AllocsChannel(ch, runs int) float64 {
	return testing.AllocsPerRun(runs, func() {
		c := w.b.Channel(ch)
		c.SetSample(0, c.Sample(0))
		sinkInt = c.Length() + c.Capacity() + c.Channels() + c.BufferIndex(ch, 0)
	})
}

// AllocsCycle measures one Get / AppendSample / Put cycle on the pool.
func (w poolW[T]) AllocsCycle(runs int) float64 {
	return testing.AllocsPerRun(runs, func() {
		b := w.p.Get()
		b.AppendSample(1)
		w.p.Put(b)
	})
}

// AllocsCyclePair measures a cycle in which two buffers are held together and put back one after the other.
func (w poolW[T]) AllocsCyclePair(runs int) float64 {
	return testing.AllocsPerRun(runs, func() {
		a, b := w.p.Get(), w.p.Get()
		a.AppendSample(1)
		w.p.Put(a)
		w.p.Put(b)
	})
}

// AllocsCycleMany measures a cycle in which six buffers are held together and then all put back.
func (w poolW[T]) AllocsCycleMany(runs int) float64 {
	var held [6]*signal.Buffer[T]
	return testing.AllocsPerRun(runs, func() {
		for i := range held {
			held[i] = w.p.Get()
		}
		held[0].AppendSample(1)
		for i := range held {
			w.p.Put(held[i])
		}
	})
}

// AllocsCycleByValue measures the same cycle through a copy of the allocator value that is passed
// to a function by value on every run (PoolAlloc returns a value; holding and passing it by value is
// ordinary use).
func (w poolW[T]) AllocsCycleByValue(runs int) float64 {
	q := *w.p
	return testing.AllocsPerRun(runs, func() { cycleByValue(q) })
}

//go:noinline
func cycleByValue[T signal.SignalTypes](p signal.PoolAllocator[T]) {
	b := p.Get()
	b.AppendSample(1)
	p.Put(b)
}

// Striped is a [][]T prepared in advance (so that building it is not measured).
type Striped interface{ T() int }

type stripedW[T signal.SignalTypes] struct {
	s [][]T
	t int
}

func (w stripedW[T]) T() int { return w.t }

// NewStriped makes a [][]T with the given lengths (-1: nil slice).
func NewStriped(t int, lens []int) Striped { return tops[t].newStriped(lens) }

func mkStriped[T signal.SignalTypes](t int, lens []int) Striped {
	s := make([][]T, len(lens), len(lens)+2)
	for i, l := range lens {
		if l >= 0 {
			s[i] = slack[T](l, t)
		}
	}
	h := s[:cap(s)]
	for i := len(lens); i < len(h); i++ {
		h[i] = make([]T, 3)
	}
	return stripedW[T]{s, t}
}

// WriteStripedP / ReadStripedP call the library with a prepared [][]T.
func WriteStripedP(src Striped, dst Buf) int { return pairs[src.T()][dst.T()].writeStripedP(src, dst) }
func ReadStripedP(src Buf, dst Striped) int  { return pairs[src.T()][dst.T()].readStripedP(src, dst) }

var msA, msB runtime.MemStats

// MallocsDuring counts the heap allocations made while f runs once, without a warm-up call
// (testing.AllocsPerRun always makes one, which hides an allocation that only the first call on a fresh
// object makes, and averages away amortised growth).  Other goroutines may add noise: callers take the
// minimum over a few fresh objects.
func MallocsDuring(f func()) uint64 {
	runtime.ReadMemStats(&msA)
	f()
	runtime.ReadMemStats(&msB)
	return msB.Mallocs - msA.Mallocs
}

// AllocsPerRun re-exports testing.AllocsPerRun.
func AllocsPerRun(runs int, f func()) float64 { return testing.AllocsPerRun(runs, f) }
