#!/bin/bash
# tools/seedall.sh [tier]  — re-runs every stored seed under /verif/seeded against the current checks (scratch
# worktrees, /repo untouched) and writes /verif/seeded/MATRIX.md.  12 at a time.
cd /verif
TIER=${1:-quick}
rm -f /tmp/seedall.*.txt
i=0
for d in seeded/*/; do
  n=$(basename $d); ids=$(python3 -c "
import json; m=json.load(open('$d/meta.json')); print(' '.join([m['property_id']]+[x for x in m.get('detected_by',[]) if x!=m['property_id']]))")
  ( TIER=$TIER tools/seedcheck.sh $d $ids > /tmp/seedall.$n.txt 2>&1 ) &
  i=$((i+1)); if [ $((i % 12)) -eq 0 ]; then wait; fi
done
wait
{
  echo "# Seeded changes vs. checks ($TIER tier, $(date -u +%F))"
  echo
  echo "| seed | property | confirmed (demo ok / suite ok / demo fails) | own check exit | first violation key | other checks that report it |"
  echo "|---|---|---|---|---|---|"
  for d in seeded/*/; do
    n=$(basename $d); id=$(python3 -c "import json;print(json.load(open('$d/meta.json'))['property_id'])")
    conf=$(grep -c "^seed confirmed" /tmp/seedall.$n.txt)
    line=$(grep "^CHECK" /tmp/seedall.$n.txt | head -1)
    ex=$(echo "$line" | sed -n 's/.*exit=\([0-9]*\).*/\1/p'); key=$(echo "$line" | sed -n 's/.*key=\([^ ]*\).*/\1/p')
    others=$(grep "^CHECK" /tmp/seedall.$n.txt | tail -n +2 | sed -n 's/^CHECK \([A-Z0-9]*\) exit=1.*/\1/p' | tr '\n' ' ')
    echo "| $n | $id | $([ "$conf" = 1 ] && echo yes || echo NO) | ${ex:-?} | ${key:--} | ${others:--} |"
  done
} > seeded/MATRIX.md
rm -f /tmp/seedall.*.txt
echo "reported by own check: $(grep -c "| 1 |" seeded/MATRIX.md)"; grep -v "| 1 |" seeded/MATRIX.md | tail -n +5
