package props

import (
	"encoding/json"
	"fmt"

	"verif/mc/core"
	"verif/mc/dyn"
)

// C03 — Append concatenates per channel, in place whenever capacity allows.
//
// Scripted exploration on the views world: v0 = root of P frames (full length, stamped),
// v1 = destination = v0.slice(S,S+L), v2 = a second header over the same window; then up
// to Depth appends whose source is an independent buffer of 0..P+2 frames, the
// destination itself, the second header, or any window of the root that the append does
// not overwrite; finally every view is stamped in turn (independence of moved views).

type c03Case struct {
	Type       string `json:"type"`
	C, P, S, L int
	Ops        []wop `json:"ops"` // the appends (and the slicings that make their sources)
	// Directed: a whole scripted history on a fresh world (no fixed prefix): growth of one large
	// buffer while views of its old storage stay alive, then growth of other buffers.
	Directed bool `json:"directed,omitempty"`
	// ValPass: special values (both zeros, infinities, bounds) appended over storage holding the same
	// values rotated by Shift, in place or (Grow) into new storage, compared by bit pattern (valpass.go)
	ValPass bool `json:"val_pass,omitempty"`
	Shift   int  `json:"shift,omitempty"`
	Grow    bool `json:"grow,omitempty"`
}

func c03Prefix(cs c03Case) []wop {
	return []wop{
		{K: "alloc", A: cs.P, B: cs.P},
		{K: "stamp", V: 0},
		{K: "slice", V: 0, A: cs.S, B: cs.S + cs.L},
		{K: "slice", V: 0, A: cs.S, B: cs.S + cs.L},
	}
}

// c03Run returns failures and whether the history is inside the property's domain.
func c03Directed(t, C, S int) c03Case {
	return c03Case{Type: tn(t), C: C, P: S, Directed: true, Ops: []wop{
		{K: "alloc", V: 0, A: S, B: S}, {K: "stamp", V: 0},
		{K: "slice", V: 0, A: 0, B: S / 2}, // v1: first half of a
		{K: "alloc", V: 2, A: 1, B: 1}, {K: "stamp", V: 2},
		{K: "append", V: 0, W: 2}, // a grows; v1 stays on the old storage
		{K: "alloc", V: 3, A: S / 2, B: S / 2}, {K: "stamp", V: 3},
		{K: "append", V: 3, W: 1}, // b grows to S frames
		{K: "stamp", V: 3}, {K: "stamp", V: 1}, {K: "stamp", V: 0},
		{K: "alloc", V: 4, A: S / 4, B: S / 4}, {K: "stamp", V: 4},
		{K: "append", V: 4, W: 4}, // self-append, grows
		{K: "append", V: 4, W: 1}, {K: "stamp", V: 4}, {K: "stamp", V: 1},
		{K: "alloc", V: 5, A: S, B: S + S/3}, // room for some, not all
		{K: "append", V: 5, W: 1}, {K: "append", V: 5, W: 5}, {K: "stamp", V: 5}, {K: "stamp", V: 1},
	}}
}

// c03Takeover: empty destinations (no capacity, one frame of capacity) take a large source; afterwards
// source and destination are stamped in turn: the destination must have moved to storage of its own.
func c03Takeover(t, C, S int) c03Case {
	return c03Case{Type: tn(t), C: C, P: S, Directed: true, Ops: []wop{
		{K: "alloc", V: 0, A: S, B: S}, {K: "stamp", V: 0},
		{K: "alloc", V: 1, A: 0, B: 1},
		{K: "append", V: 1, W: 0},
		{K: "stamp", V: 0}, {K: "stamp", V: 1}, {K: "stamp", V: 0},
		{K: "alloc", V: 2, A: 0, B: 0},
		{K: "append", V: 2, W: 0},
		{K: "stamp", V: 2}, {K: "stamp", V: 0},
		{K: "append", V: 2, W: 1}, // and once more onto the now exactly full destination
		{K: "stamp", V: 1}, {K: "stamp", V: 2},
	}}
}

func c03Run(cs c03Case) (fs []F, ok bool, grew, inplace int) {
	ok = true
	fs = core.Guard("Append", func() []F {
		var f []F
		f, ok, grew, inplace = c03RunRaw(cs)
		return f
	})
	return
}

func c03RunRaw(cs c03Case) (fs []F, ok bool, grew, inplace int) {
	if cs.ValPass {
		fs = valAppend(typeByName(cs.Type), cs.C, cs.Shift, cs.Grow)
		if cs.Grow {
			return fs, true, 1, 0
		}
		return fs, true, 0, 1
	}
	w := newWorld(typeByName(cs.Type), cs.C)
	if cs.Directed {
		for i, o := range cs.Ops {
			if !w.enabled(o) {
				return nil, false, 0, 0
			}
			if fs := w.apply(o, true); len(fs) > 0 {
				for k := range fs {
					fs[k].Msg = fmt.Sprintf("[%s C=%d, %d frames] directed history %v :: %s", cs.Type, cs.C, cs.P, cs.Ops[:i+1], fs[k].Msg)
				}
				return fs, true, w.grew, w.inplace
			}
		}
		return nil, true, w.grew, w.inplace
	}
	desc := func() string {
		return fmt.Sprintf("[%s C=%d root %d frames, dst=window [%d,%d)]", cs.Type, cs.C, cs.P, cs.S, cs.S+cs.L)
	}
	wrap := func(fs []F, ops []wop, i int) []F {
		for k := range fs {
			fs[k].Msg = desc() + " after " + fmt.Sprint(ops[:i]) + " :: " + fs[k].Msg
		}
		return fs
	}
	pre := c03Prefix(cs)
	if fs := w.run(pre, 0); len(fs) > 0 {
		return wrap(fs, pre, len(pre)), true, 0, 0
	}
	for i, o := range cs.Ops {
		if !w.enabled(o) {
			return nil, false, 0, 0
		}
		if fs := w.apply(o, true); len(fs) > 0 {
			return wrap(fs, cs.Ops, i), true, w.grew, w.inplace
		}
	}
	// independence / sharing probe: stamp every view in turn, compare everything
	for v := range w.views {
		if fs := w.apply(wop{K: "stamp", V: v}, true); len(fs) > 0 {
			for k := range fs {
				fs[k].Key = "Append/after-" + fs[k].Key
			}
			return wrap(fs, cs.Ops, len(cs.Ops)), true, w.grew, w.inplace
		}
	}
	return nil, true, w.grew, w.inplace
}

func init() {
	core.Register(&core.Prop{
		ID: "C03", Level: "model_checking", Design: "§5 C03",
		Run: func(c *core.Ctx) {
			depth, maxP := 2, 3
			types := []int{}
			for t := 0; t < dyn.NB; t++ {
				types = append(types, t)
			}
			if !c.Quick() {
				depth, maxP = 3, 4
			}
			type shape struct{ t, C, P, S, L int }
			var shapes []shape
			for _, t := range types {
				for C := 1; C <= 3; C++ {
					for P := 0; P <= maxP; P++ {
						for S := 0; S <= P; S++ {
							for L := 0; S+L <= P; L++ {
								shapes = append(shapes, shape{t, C, P, S, L})
							}
						}
					}
				}
			}
			c.ParallelFor(len(shapes), func(i int) {
				sh := shapes[i]
				// menu of one append step, given the number of views existing before it
				var rec func(ops []wop, nviews, d int)
				var hist, grewN, inplN, skipped int64
				rec = func(ops []wop, nviews, d int) {
					cs := c03Case{Type: tn(sh.t), C: sh.C, P: sh.P, S: sh.S, L: sh.L, Ops: ops}
					if len(ops) > 0 {
						fs, ok, g, ip := c03Run(cs)
						if !ok {
							skipped++
							return
						}
						hist++
						grewN += int64(g)
						inplN += int64(ip)
						c.Check(cs, g+ip > 0, fs)
						if len(fs) > 0 {
							return
						}
					}
					if d == depth {
						return
					}
					ext := func(more ...wop) []wop { return append(append([]wop{}, ops...), more...) }
					for k := 0; k <= sh.P+2; k++ {
						rec(ext(wop{K: "indep", V: 1, A: k}), nviews+1, d+1)
					}
					rec(ext(wop{K: "append", V: 1, W: 1}), nviews, d+1)
					rec(ext(wop{K: "append", V: 1, W: 2}), nviews, d+1)
					for a := 0; a <= sh.P; a++ {
						for b := a; b <= sh.P; b++ {
							if a == sh.S && b == sh.S+sh.L {
								continue // that is v2
							}
							rec(ext(wop{K: "slice", V: 0, A: a, B: b}, wop{K: "append", V: 1, W: nviews}), nviews+1, d+1)
						}
					}
				}
				rec(nil, 3, 0)
				c.Add("states", hist)
				c.Add("transitions", grewN+inplN)
				c.Add("traces_validated_against_impl", hist)
				c.Add("histories", hist)
				c.Add("appends_that_grew", grewN)
				c.Add("appends_in_place", inplN)
				c.Add("histories_outside_domain_skipped", skipped)
			})
			// large shapes, sparsely: every pair of appends from a reduced source menu
			type bshape struct{ t, C, P, S, L int }
			var bigs []bshape
			for _, t := range []int{dyn.Int8, dyn.Uint32, dyn.Float64, dyn.Int64} {
				for C := 1; C <= 3; C++ {
					for _, P := range []int{8, 40, 300} {
						for _, w := range [][2]int{{0, 0}, {0, P / 2}, {1, P / 2}, {P / 2, P / 2}, {0, P}, {P - 1, 1}} {
							bigs = append(bigs, bshape{t, C, P, w[0], w[1]})
						}
					}
				}
			}
			// channel counts beyond 3 (5, 6, 7, 10, 12: even and odd, none a power of two), small windows that grow
			for _, t := range []int{dyn.Int8, dyn.Float64} {
				for _, C := range []int{5, 6, 7, 10, 12} {
					for _, w := range [][3]int{{2, 0, 1}, {5, 1, 2}, {8, 0, 8}, {3, 3, 0}} {
						bigs = append(bigs, bshape{t, C, w[0], w[1], w[2]})
					}
				}
			}
			c.ParallelFor(len(bigs), func(i int) {
				sh := bigs[i]
				menu := func(nviews int) [][]wop {
					m := [][]wop{{{K: "append", V: 1, W: 1}}, {{K: "append", V: 1, W: 2}}}
					for _, k := range []int{1, sh.P / 2, sh.P, 2 * sh.P} {
						m = append(m, []wop{{K: "indep", V: 1, A: k}})
					}
					for _, w := range [][2]int{{0, 1}, {0, sh.P}, {sh.P - 1, sh.P}, {sh.P / 4, sh.P / 2}} {
						m = append(m, []wop{{K: "slice", V: 0, A: w[0], B: w[1]}, {K: "append", V: 1, W: nviews}})
					}
					return m
				}
				var hist, trans int64
				for _, a := range menu(3) {
					nv := 3
					for _, o := range a {
						if o.K != "append" {
							nv++
						}
					}
					for _, b := range append(menu(nv), nil) {
						cs := c03Case{Type: tn(sh.t), C: sh.C, P: sh.P, S: sh.S, L: sh.L, Ops: append(append([]wop{}, a...), b...)}
						fs, ok, g, ip := c03Run(cs)
						if !ok {
							continue
						}
						hist++
						trans += int64(g + ip)
						c.Check(cs, true, fs)
					}
				}
				c.Add("states", hist)
				c.Add("transitions", trans)
				c.Add("traces_validated_against_impl", hist)
				c.Add("large_shape_histories", hist)
			})
			// directed histories on large storages (several destinations; recycled blocks)
			var dir []c03Case
			for _, t := range []int{dyn.Int8, dyn.Uint16, dyn.Float64, dyn.Int32} {
				for C := 1; C <= 3; C++ {
					for _, S := range []int{8, 300, 1100, 4200, 9000} {
						dir = append(dir, c03Directed(t, C, S))
					}
					// power-of-two byte sizes (whole copy chunks): sources of S/2 frames
					if C <= 2 && (t == dyn.Float64 || (t == dyn.Int8 && !c.Quick())) {
						for _, S := range []int{65536, 131072, 262144} {
							if t == dyn.Int8 {
								S *= 8
							}
							dir = append(dir, c03Directed(t, C, S))
						}
					}
				}
			}
			for _, t := range []int{dyn.Int8, dyn.Float64} { // empty destinations taking sources of every size class
				for C := 1; C <= 2; C++ {
					for _, S := range []int{3, 300, 9000, 40000, 70000, 140000} {
						dir = append(dir, c03Takeover(t, C, S))
					}
				}
			}
			runDir := func(dir []c03Case) {
				c.ParallelFor(len(dir), func(i int) {
					fs, ok, g, ip := c03Run(dir[i])
					if ok {
						c.Check(dir[i], true, fs)
						c.Add("states", 1)
						c.Add("transitions", int64(g+ip))
						c.Add("traces_validated_against_impl", 1)
					}
				})
			}
			runDir(dir)
			// the process environment: long appends under GOMAXPROCS 1, 2, 3 and 48
			envDir := []c03Case{c03Directed(dyn.Float64, 2, 40000), c03Directed(dyn.Int8, 3, 70001), c03Takeover(dyn.Int16, 2, 40001), c03Takeover(dyn.Int8, 1, 140001)}
			for _, procs := range envProcs {
				if c.Expired() {
					break
				}
				c.WithProcs(procs, func() { runDir(envDir) })
			}
			c.Set("gomaxprocs_values_for_long_appends", envProcs)
			// special values, by bit pattern, for every element type of the facade
			vt := valTypes()
			c.ParallelFor(len(vt), func(i int) {
				t := vt[i]
				for C := 1; C <= 3; C++ {
					for sh := 0; sh < len(valSpecials(t)); sh++ {
						for _, grow := range []bool{false, true} {
							cs := c03Case{Type: tn(t), C: C, ValPass: true, Shift: sh, Grow: grow}
							fs, _, _, _ := c03Run(cs)
							c.Check(cs, true, fs)
						}
					}
				}
			})
			c.Sample(c03Case{Type: "int16", C: 2, P: 3, S: 1, L: 1, Ops: []wop{{K: "append", V: 1, W: 1}, {K: "indep", V: 1, A: 2}}})
			c.Set("rule", fmt.Sprintf("13 element types x C in 1..3 x root of P<=%d frames x destination window (S,L) x every sequence of <=%d appends with source in {independent buffer of 0..P+2 frames, the destination itself, a second header over the destination's window, every other window of the root}; sequences whose source overlaps the region written are outside the property's domain and skipped; after every append every live view and every storage is compared with the views model, then every view is stamped in turn; non-trivial = at least one append ran; plus every pair of appends from a reduced source menu on large roots (8, 40, 300 frames) for 4 element types; and, for all 46 element types of the facade, buffers of special values (both zeros, infinities, largest/smallest magnitudes, integer bounds) appended in place over storage holding the same values rotated, and into new storage, compared by bit pattern", maxP, depth))
			c.Assume("capacity chosen by Go's append on growth is an environment answer: only 'whole frames, >= length' is required", "what the spare capacity of freshly grown storage holds is not specified and is adopted")
		},
		RunCase: func(c *core.Ctx, raw json.RawMessage) []F {
			fs, _, _, _ := c03Run(decode[c03Case](raw))
			return fs
		},
		GoTest: func(raw json.RawMessage) string {
			cs := decode[c03Case](raw)
			if cs.ValPass {
				return ""
			}
			ops := cs.Ops
			if !cs.Directed {
				ops = append(c03Prefix(cs), cs.Ops...)
			}
			return worldGoTest(cs.Type, cs.C, ops)
		},
	})
}
