//go:build verif

package props

import (
	"encoding/json"
	"fmt"
	"hash/fnv"
	"math"
	"os"
	"path/filepath"
	"runtime"
	"time"

	va "pipelined.dev/signal/verifatomic"
	vs "pipelined.dev/signal/verifsync"
	"verif/mc/core"
	"verif/mc/dyn"
	"verif/mc/poolctl"
	"verif/mc/schedx"
)

// C19 — shared read-only use and disjoint-window writes are race-free and give the same
// results as the same work done sequentially.

type c19Cfg struct {
	T       string `json:"type"`
	C       int
	R, W    int // readers, writers
	Menu    int // which set of entry points the threads run
	WW      int `json:"ww,omitempty"` // frames per writer window (0: 2)
	Bound   int
	Partial bool // readers only: the shared buffer's last frame is partly filled (C-1 samples appended after 5 frames)
	Frames  int  // frames of the shared buffer (0: 6)
	Grown   bool // readers only: the shared buffer was grown by Append (to a capacity the runtime chose) and nothing has asked for its capacity before the readers start
	Pooled  bool // the shared buffer is a recycled pool buffer (previous owner grew it, then Put): length 3 frames, the writers' ranges lie in its spare capacity
	// Mode != "": the all-instantiations harness: two threads convert with instantiation (Src, Dst);
	// "readers": one shared source, private destinations; "writers": private sources into two
	// disjoint windows of one shared destination
	Mode     string `json:"mode,omitempty"`
	Src, Dst string `json:",omitempty"`
	// FakeProcs > 0: the library is told GOMAXPROCS = FakeProcs and NumCPU = 16 (the overlay redirects
	// those two calls to the shim; the real GOMAXPROCS is 1 under the explorer), so that code which splits
	// work by the number of processors does split, and its goroutines become threads of the explorer
	FakeProcs int `json:"fake_procs,omitempty"`
}

type c19Case struct {
	Cfg     c19Cfg `json:"cfg"`
	Choices []int  `json:"choices"`
	Race    bool   `json:"race,omitempty"`
}

type c19H struct {
	cfg     c19Cfg
	t       int
	stripes []dyn.Sl // shared input of the striped writers
	parent  dyn.Buf
	roEnd   int // read-only region is frames [0, roEnd)
	obs     [schedx.MaxThreads]uint64
	step    [schedx.MaxThreads]int
	fails   [schedx.MaxThreads][]string
	// reference (sequential) results
	haveRef  bool
	refObs   [schedx.MaxThreads]uint64
	refFinal []dyn.Val
	refHdr   header
}

func (h *c19H) Threads() int { return h.cfg.R + h.cfg.W }

func (h *c19H) ww() int {
	if h.cfg.WW > 0 {
		return h.cfg.WW
	}
	return 2
}

func (h *c19H) frames() int {
	if h.cfg.Frames > 0 {
		return h.cfg.Frames
	}
	if n := h.ww()*h.cfg.W + 3; n > 6 {
		return n // at least 3 read-only frames in front of the writers' ranges
	}
	return 6
}

func (h *c19H) Init() {
	C := h.cfg.C
	c19Frames := h.frames()
	poolctl.ResetSched()
	h.stripes = make([]dyn.Sl, C)
	for c := range h.stripes {
		n := h.ww() + 1 // one frame more than a writer's window holds
		if c == C-1 {
			n = h.ww() - 1 // short
		}
		h.stripes[c] = dyn.NewSl(h.t, n)
		for k := 0; k < n; k++ {
			h.stripes[c].Set(k, dyn.Tok(h.t, tk(int64(50+2*k+c))))
		}
	}
	if h.cfg.Pooled {
		// a recycled pooled buffer: nothing but Get, AppendSample, Put, Get, SetSample touches it before the threads start
		p := dyn.NewPool(h.t, al(C, 3, c19Frames))
		prev := p.Get()
		for k := 0; k < C+1; k++ {
			prev.AppendSample(dyn.Tok(h.t, 9))
		}
		p.Put(prev)
		h.parent = p.Get()
		for i := 0; i < C*3; i++ {
			h.parent.SetSample(i, dyn.Tok(h.t, tk(int64(1+i))))
		}
		h.roEnd = 3
		for i := range h.obs {
			h.obs[i], h.step[i], h.fails[i] = 14695981039346656037, 0, nil
		}
		return
	}
	if h.cfg.Grown {
		// Alloc of one frame, then Append of the rest: the storage moves and the runtime picks the capacity
		h.parent = dyn.Alloc(h.t, al(C, 1, 1))
		rest := dyn.Alloc(h.t, al(C, c19Frames-1, c19Frames-1))
		for i := 0; i < C; i++ {
			h.parent.SetSample(i, dyn.Tok(h.t, tk(int64(1+i))))
		}
		for i := 0; i < rest.Len(); i++ {
			rest.SetSample(i, dyn.Tok(h.t, tk(int64(1+C+i))))
		}
		h.parent.Append(rest)
		h.roEnd = c19Frames
		for i := range h.obs {
			h.obs[i], h.step[i], h.fails[i] = 14695981039346656037, 0, nil
		}
		return
	}
	if h.cfg.Partial {
		// no shape method is called on the shared header before the threads start
		h.parent = dyn.Alloc(h.t, al(C, c19Frames-1, c19Frames))
		for i := 0; i < C*(c19Frames-1); i++ {
			h.parent.SetSample(i, dyn.Tok(h.t, tk(int64(1+i))))
		}
		for k := 0; k < C-1; k++ {
			h.parent.AppendSample(dyn.Tok(h.t, int64(100+k)))
		}
	} else {
		h.parent = dyn.Alloc(h.t, al(C, c19Frames, c19Frames))
		for i := 0; i < C*c19Frames; i++ {
			h.parent.SetSample(i, dyn.Tok(h.t, tk(int64(1+i))))
		}
	}
	h.roEnd = c19Frames
	if h.cfg.W > 0 {
		h.roEnd = c19Frames - h.ww()*h.cfg.W
	}
	for i := range h.obs {
		h.obs[i], h.step[i], h.fails[i] = 14695981039346656037, 0, nil
	}
}

func (h *c19H) mix(id int, vals ...uint64) {
	o := h.obs[id]
	for _, v := range vals {
		o = (o ^ v) * 1099511628211
	}
	h.obs[id] = o
}

// convDst picks the private destination type for conversions out of the shared buffer.
func c19Partner(t, variant int) int {
	switch dyn.Types[t].Kind {
	case dyn.Signed:
		return []int{dyn.Int16, dyn.Float64, dyn.Uint8}[variant%3]
	case dyn.Unsigned:
		return []int{dyn.Uint32, dyn.Float32, dyn.Int8}[variant%3]
	}
	return []int{dyn.Float64, dyn.Int32, dyn.Uint16}[variant%3]
}

func (h *c19H) reader(id int) {
	C := h.cfg.C
	n := C * h.roEnd
	full := h.roEnd // frames that are completely filled
	c19Frames := h.frames()
	if h.cfg.Partial {
		n = C*(c19Frames-1) + C - 1
		full = c19Frames - 1
	}
	// the read-only part: the shared header itself when there are no writers, else a slice of it
	ro := func() dyn.Buf {
		if h.cfg.W == 0 {
			return h.parent
		}
		return h.parent.Slice(0, h.roEnd)
	}
	ops := [][]string{{"samples", "read", "slice", "conv0"}, {"rstriped", "channel", "conv1", "shape"}, {"conv2", "appendsrc", "channel", "samples"}}[h.cfg.Menu%3]
	for k, op := range ops {
		schedx.Point("reader " + op)
		p := h.parent
		switch op {
		case "samples":
			for i := 0; i < n; i++ {
				h.mix(id, p.Sample(i).B)
			}
		case "shape":
			h.mix(id, uint64(p.Len()), uint64(p.Cap()), uint64(p.Length()), uint64(p.Capacity()), uint64(p.Channels()), uint64(p.BitDepth()), uint64(p.BufferIndex(C-1, 2)))
		case "read":
			out := dyn.NewSl(h.t, n+1)
			r := dyn.Read(ro(), out)
			h.mix(id, uint64(r))
			for i := 0; i < n; i++ {
				h.mix(id, out.Get(i).B)
			}
		case "rstriped":
			outs := make([]dyn.Sl, C)
			for c := range outs {
				outs[c] = dyn.NewSl(h.t, full-c%2) // only completely filled frames: the striped reader needs them; unequal lengths
			}
			r := dyn.ReadStriped(ro(), h.t, outs, false)
			h.mix(id, uint64(r))
			for c := range outs {
				for i := 0; i < outs[c].Len(); i++ {
					h.mix(id, outs[c].Get(i).B)
				}
			}
		case "slice":
			s := p.Slice(1, full)
			h.mix(id, uint64(s.Len()), uint64(s.Cap()), uint64(s.Length()), uint64(s.Capacity()))
			if !h.cfg.Partial {
				s2 := p.Slice(full, p.Capacity()) // up to the capacity: only its shape is looked at
				h.mix(id, uint64(s2.Len()), uint64(s2.Cap()))
			} else {
				// windows that start before the partly filled last frame and end behind it
				s3 := p.Slice(0, p.Length())
				s4 := p.Slice(full-1, p.Capacity())
				h.mix(id, uint64(s3.Len()), uint64(s3.Cap()), uint64(s4.Len()), uint64(s4.Cap()))
			}
			for i := 0; i < s.Len(); i++ {
				h.mix(id, s.Sample(i).B)
			}
		case "channel":
			for c := 0; c < C; c++ {
				ch := p.Channel(c)
				h.mix(id, uint64(ch.Length()), uint64(ch.Capacity()), uint64(ch.Channels()))
				for i := 0; i < full; i++ {
					h.mix(id, ch.Sample(i).B, uint64(ch.BufferIndex(c, i)))
				}
			}
		case "appendsrc":
			// the shared buffer as the source of Append (which leaves its source alone) into two buffers of the
			// reader's own, one without any capacity (it has to grow) and one with room; the copies are then
			// overwritten
			src := ro()
			if h.cfg.Partial {
				src = p.Slice(0, full) // whole frames only
			}
			own := []dyn.Buf{dyn.Alloc(h.t, al(C, 0, 0)), dyn.Alloc(h.t, al(C, 0, full+1)), dyn.Alloc(h.t, al(C, 0, 1))}
			for _, o := range own {
				o.Append(src)
				h.mix(id, uint64(o.Len()))
				for i := 0; i < o.Len(); i++ {
					h.mix(id, o.Sample(i).B)
					o.SetSample(i, dyn.Tok(h.t, int64(id+3)))
				}
			}
		case "conv0", "conv1", "conv2":
			dt := c19Partner(h.t, int(op[4]-'0'))
			dst := dyn.Alloc(dt, al(C, h.roEnd, h.roEnd))
			r := dyn.Conv(ro(), dst)
			h.mix(id, uint64(r))
			for i := 0; i < dst.Len(); i++ {
				h.mix(id, dst.Sample(i).B)
			}
		}
		h.step[id] = k + 1
	}
}

func (h *c19H) writer(id, wi int) {
	C := h.cfg.C
	lo := h.roEnd + h.ww()*wi
	schedx.Point("writer slice")
	w := h.parent.Slice(lo, lo+h.ww())
	base := int64(40 + 20*wi)
	ops := [][]string{{"set", "write", "convdst", "chanset"}, {"wstriped", "chanset", "set", "write"}, {"convdst", "wstriped", "write", "set"}}[h.cfg.Menu%3]
	for k, op := range ops {
		schedx.Point("writer " + op)
		switch op {
		case "set":
			for i := 0; i < w.Len(); i++ {
				w.SetSample(i, dyn.Tok(h.t, tk(base+int64(i))))
			}
		case "write":
			// (more data than the window holds: only the window may be written)
			src := dyn.NewSl(h.t, w.Len()+C+1)
			for i := 0; i < src.Len(); i++ {
				src.Set(i, dyn.Tok(h.t, tk(base+5+int64(i))))
			}
			h.mix(id, uint64(dyn.Write(src, w)))
		case "wstriped":
			// one table of per-channel slices shared by all writers (read-only input; its last channel is
			// short, so that the writer has to zero-fill)
			h.mix(id, uint64(dyn.WriteStriped(h.t, h.stripes, false, w)))
		case "chanset":
			for c := 0; c < C; c++ {
				ch := w.Channel(c)
				ch.SetSample(1, dyn.Tok(h.t, base+15+int64(c)))
			}
		case "convdst":
			// conversion with the window as destination (same element type: identity-like)
			src := dyn.Alloc(h.t, al(C, h.ww()+1, h.ww()+1)) // one frame more than the window holds
			for i := 0; i < src.Len(); i++ {
				src.SetSample(i, dyn.Tok(h.t, int64(wi)))
			}
			h.mix(id, uint64(dyn.Conv(src, w)))
		}
		h.step[id] = k + 1
	}
	if d := dyn.TakeCallerDamage(); d != "" {
		h.fails[id] = append(h.fails[id], "writer: "+d)
	}
	// the writer's own view of its range
	for i := 0; i < w.Len(); i++ {
		h.mix(id, w.Sample(i).B)
	}
}

func (h *c19H) Run(id int) {
	if id < h.cfg.R {
		h.reader(id)
	} else {
		h.writer(id, id-h.cfg.R)
	}
}

func (h *c19H) Finish() []string {
	var final []dyn.Val
	whole := h.parent
	if h.cfg.Pooled {
		whole = full(h.parent)
	}
	for i := 0; i < whole.Len(); i++ {
		final = append(final, whole.Sample(i))
	}
	hd := hdr(h.parent)
	var own []string // what the threads themselves noticed (damage to the slices they passed in)
	for i := 0; i < h.Threads(); i++ {
		own = append(own, h.fails[i]...)
	}
	if !h.haveRef {
		h.haveRef, h.refObs, h.refFinal, h.refHdr = true, h.obs, final, hd
		// the read-only region must still hold the initial tokens
		r := own
		for i := 0; i < h.cfg.C*h.roEnd && i < len(final); i++ {
			want := tk(int64(1 + i))
			if c19Frames := h.frames(); h.cfg.Partial && i >= h.cfg.C*(c19Frames-1) {
				want = int64(100 + i - h.cfg.C*(c19Frames-1))
			}
			if final[i].Tok() != want {
				r = append(r, fmt.Sprintf("sequential run: read-only sample %d changed to %v", i, final[i]))
			}
		}
		return r
	}
	r := own
	for i := 0; i < h.Threads(); i++ {
		if h.obs[i] != h.refObs[i] {
			role := "reader"
			if i >= h.cfg.R {
				role = "writer"
			}
			r = append(r, fmt.Sprintf("%s thread %d observed something different from the sequential run", role, i))
		}
	}
	if hd != h.refHdr {
		r = append(r, fmt.Sprintf("shared buffer shape %+v differs from the sequential run %+v", hd, h.refHdr))
	}
	for i := range final {
		if i < len(h.refFinal) && final[i] != h.refFinal[i] {
			r = append(r, fmt.Sprintf("final sample %d of the shared buffer is %v, sequential run gives %v", i, final[i], h.refFinal[i]))
			break
		}
	}
	return r
}

func (h *c19H) Key() (uint64, bool) {
	if core.RaceEnabled {
		return 0, false
	}
	f := fnv.New64a()
	var b [8]byte
	put := func(x uint64) {
		for i := 0; i < 8; i++ {
			b[i] = byte(x >> (8 * i))
		}
		f.Write(b[:])
	}
	for i := 0; i < h.Threads(); i++ {
		put(h.obs[i])
		put(uint64(h.step[i]))
	}
	for i := 0; i < h.parent.Len(); i++ {
		put(h.parent.Sample(i).B)
	}
	return f.Sum64(), true
}

func c19Key(msg string) string {
	switch {
	case contains(msg, "reader thread"):
		return "shared/reader-result-differs"
	case contains(msg, "writer thread"):
		return "shared/writer-result-differs"
	case contains(msg, "final sample"), contains(msg, "read-only sample"):
		return "shared/final-contents-differ"
	case contains(msg, "shape"):
		return "shared/shape-changed"
	case contains(msg, "panicked"):
		return "shared/panic"
	case contains(msg, "outer slice"), contains(msg, "caller's slice"):
		return "shared/caller-slices"
	}
	return "shared/other"
}

func c19Configs(tier string, race bool) []c19Cfg {
	var r []c19Cfg
	types := []string{"int8", "uint16", "float32"}
	add := func(R, W, bound int, menus []int, cs []int) {
		for _, t := range types {
			for _, C := range cs {
				for _, m := range menus {
					r = append(r, c19Cfg{T: t, C: C, R: R, W: W, Menu: m, Bound: bound})
				}
			}
		}
	}
	all := []int{0, 1, 2}
	addGrown := func(bound int) {
		for _, tc := range []struct {
			t string
			C int
		}{{"float64", 3}, {"int8", 3}, {"int16", 5}} {
			for m := 0; m < 3; m++ {
				r = append(r, c19Cfg{T: tc.t, C: tc.C, R: 2, W: 0, Menu: m, Bound: bound, Grown: true, Frames: 5})
			}
		}
	}
	addPartial := func(R, bound int) {
		for _, t := range types {
			for _, C := range []int{2, 3} {
				for _, m := range all {
					r = append(r, c19Cfg{T: t, C: C, R: R, W: 0, Menu: m, Bound: bound, Partial: true})
				}
			}
		}
	}
	addPooled := func(bound int) { // a recycled pool buffer as the shared buffer
		for _, t := range types {
			for _, m := range all {
				r = append(r, c19Cfg{T: t, C: 2, R: 2, W: 0, Menu: m, Bound: bound, Pooled: true})
				r = append(r, c19Cfg{T: t, C: 2, R: 1, W: 2, Menu: m, Bound: bound, Pooled: true})
			}
		}
	}
	addWide := func(R, bound int) { // more than 8 channels, and long (>= 1024 samples) shared buffers
		for _, m := range all {
			r = append(r, c19Cfg{T: "int64", C: 9, R: R, W: 0, Menu: m, Bound: bound})
			r = append(r, c19Cfg{T: "int8", C: 2, R: R, W: 0, Menu: m, Bound: bound, Frames: 600})
			r = append(r, c19Cfg{T: "uint16", C: 2, R: 1, W: 2, Menu: m, Bound: bound, Frames: 600})
		}
		// writers whose windows are long (8200 frames each: paths that tile or parallelise inside one call)
		wb := bound
		if wb < 0 || wb > 1 {
			wb = 1
		}
		r = append(r, c19Cfg{T: "int16", C: 2, R: 1, W: 2, Menu: 1, Bound: wb, WW: 8200, Frames: 2*8200 + 4, FakeProcs: 4})
		// readers of a long shared buffer (40000 samples), striped reads into slices of unequal lengths
		r = append(r, c19Cfg{T: "int8", C: 2, R: 2, W: 0, Menu: 1, Bound: wb, Frames: 20000, FakeProcs: 4})
	}
	if race {
		addWide(2, 2)
		addPooled(2)
		if tier == "thorough" {
			add(2, 0, -1, all, []int{1, 2})
			addPartial(2, -1)
			addGrown(3)
			addPartial(3, 2)
			add(3, 0, 3, all, []int{2})
			add(1, 1, -1, all, []int{1, 2})
			add(2, 2, 3, all, []int{1, 2})
			add(1, 2, 3, all, []int{2})
			add(0, 3, 3, all, []int{2})
		} else {
			add(2, 0, 2, all, []int{2})
			addPartial(2, 2)
			addGrown(2)
			add(1, 1, 2, all, []int{1, 2})
			add(2, 2, 2, all, []int{2})
			add(1, 2, 2, all, []int{1})
		}
		return r
	}
	add(2, 0, -1, all, []int{1, 2})
	addPartial(2, -1)
	addGrown(-1)
	addWide(2, -1)
	addPooled(-1)
	add(3, 0, -1, all, []int{2})
	add(1, 1, -1, all, []int{1, 2})
	add(2, 2, -1, all, []int{1, 2})
	add(1, 2, -1, all, []int{1, 2})
	if tier == "thorough" {
		add(4, 0, -1, all, []int{2})
		add(3, 2, -1, all, []int{2})
		add(0, 3, -1, all, []int{1, 2})
		add(2, 3, -1, all, []int{1})
	}
	return r
}

// c19InstH: two threads, one conversion each, for one instantiation.
type c19InstH struct {
	cfg      c19Cfg
	s, d     int
	shared   dyn.Buf
	obs      [2]uint64
	haveRef  bool
	refObs   [2]uint64
	refFinal []dyn.Val
}

func (h *c19InstH) Threads() int { return 2 }
func (h *c19InstH) frames() int {
	if h.cfg.Frames > 0 {
		return h.cfg.Frames
	}
	return 6
}
func (h *c19InstH) Init() {
	fr := h.frames()
	t := h.s
	if h.cfg.Mode == "writers" {
		t = h.d
	}
	h.shared = dyn.Alloc(t, al(h.cfg.C, fr, fr))
	for i := 0; i < h.shared.Len(); i++ {
		// (every third value negative where the type has negative values: floats at or below -1 are clipped,
		// and a conversion has no business writing to its source whatever the value)
		x := tk(int64(1 + i))
		if i%3 == 2 && dyn.Types[t].Kind != dyn.Unsigned {
			x = -x
		}
		h.shared.SetSample(i, dyn.Tok(t, x))
		if i == 4 && dyn.Types[t].Kind == dyn.Float {
			h.shared.SetSample(i, dyn.F(math.NaN())) // (its own result is unspecified but deterministic)
		}
	}
	h.obs = [2]uint64{14695981039346656037, 14695981039346656037}
}
func (h *c19InstH) Run(id int) {
	fr := h.frames()
	C := h.cfg.C
	schedx.Point("convert")
	var ret int
	var look dyn.Buf
	if h.cfg.Mode == "readers" {
		// (the second reader's destination is one frame shorter than the shared source)
		dfr := fr - id
		dst := dyn.Alloc(h.d, al(C, dfr, dfr))
		ret = dyn.Conv(h.shared, dst)
		look = dst
	} else {
		half := fr / 2
		w := h.shared.Slice(id*half, id*half+half)
		src := dyn.Alloc(h.s, al(C, half+1, half+1)) // one frame more than the window holds
		for i := 0; i < src.Len(); i++ {
			src.SetSample(i, dyn.Tok(h.s, tk(int64(3+i+7*id))))
		}
		ret = dyn.Conv(src, w)
		look = w
	}
	o := h.obs[id]
	o = (o ^ uint64(ret)) * 1099511628211
	for i := 0; i < look.Len(); i++ {
		o = (o ^ look.Sample(i).B) * 1099511628211
	}
	h.obs[id] = o
	schedx.Point("done")
}
func (h *c19InstH) Finish() []string {
	var final []dyn.Val
	for i := 0; i < h.shared.Len(); i++ {
		final = append(final, h.shared.Sample(i))
	}
	if !h.haveRef {
		h.haveRef, h.refObs, h.refFinal = true, h.obs, final
		return nil
	}
	var r []string
	for i := 0; i < 2; i++ {
		if h.obs[i] != h.refObs[i] {
			r = append(r, fmt.Sprintf("%s thread %d observed something different from the sequential run", map[string]string{"readers": "reader", "writers": "writer"}[h.cfg.Mode], i))
		}
	}
	for i := range final {
		if final[i] != h.refFinal[i] {
			r = append(r, fmt.Sprintf("final sample %d of the shared buffer is %v, sequential run gives %v", i, final[i], h.refFinal[i]))
			break
		}
	}
	return r
}
func (h *c19InstH) Key() (uint64, bool) { return 0, false }

func c19Explore(c *core.Ctx, cfg c19Cfg, race bool, only []int, onFail func(cs c19Case, fs []F)) (e *schedx.Explorer, rep map[string]any) {
	old := runtime.GOMAXPROCS(1)
	defer runtime.GOMAXPROCS(old)
	va.SetHook(func(op string) { schedx.Point(op) }) // atomic operations of the library are scheduling points
	vs.SetGlobal(poolctl.Sched{})                    // pools (the recycled shared buffer) are deterministic
	// what the library is told about the machine (the real GOMAXPROCS is 1 under the explorer)
	if cfg.FakeProcs > 0 {
		vs.SetFakeProcs(cfg.FakeProcs, 16)
	} else {
		vs.SetFakeProcs(4, 16)
	}
	defer func() { va.SetHook(nil); vs.SetGlobal(nil); vs.SetFakeProcs(0, 0) }()
	start := time.Now()
	baseGoroutines := runtime.NumGoroutine()
	var h schedx.Harness = &c19H{cfg: cfg, t: typeByName(cfg.T)}
	if cfg.Mode != "" {
		h = &c19InstH{cfg: cfg, s: typeByName(cfg.Src), d: typeByName(cfg.Dst)}
	}
	e = &schedx.Explorer{H: h, Bound: cfg.Bound, Prune: cfg.Bound < 0 && !core.RaceEnabled, Horizon: 2000, Stop: c.Expired}
	judge := func(x *schedx.Execution, raceBefore *int) []F {
		var fs []F
		for _, m := range x.Failures {
			fs = append(fs, core.Failf(c19Key(m), "%+v schedule %v: %s", cfg, x.Choices, m))
		}
		if n := core.RaceErrors(); n > *raceBefore {
			fs = append(fs, core.Failf("shared/data-race", "%+v schedule %v: the race detector reported a data race on this schedule", cfg, x.Choices))
			*raceBefore = n
		}
		return fs
	}
	raceBefore := core.RaceErrors()
	// reference: the sequential schedule (thread after thread)
	prune := e.Prune
	e.Prune = false
	ref, err := e.Run(nil)
	e.Prune = prune && only == nil
	if err != nil {
		c.InternalError("C19 %+v reference: %v", cfg, err)
		return e, nil
	}
	if fs := judge(ref, &raceBefore); len(fs) > 0 {
		onFail(c19Case{Cfg: cfg, Choices: ref.Choices, Race: race}, fs)
	}
	if only != nil {
		x, err := e.Run(only)
		if err != nil {
			onFail(c19Case{Cfg: cfg, Choices: only, Race: race}, []F{core.Failf("internal/replay-diverged", "%v", err)})
			return e, nil
		}
		if fs := judge(x, &raceBefore); len(fs) > 0 {
			onFail(c19Case{Cfg: cfg, Choices: only, Race: race}, fs)
		}
		return e, nil
	}
	outcomes := map[string]int64{}
	nfail := 0
	var sample []string
	e.OnExec = func(x *schedx.Execution) {
		if e.Executions == 3 && !x.Truncated {
			sample = x.Describe()
		}
		fs := judge(x, &raceBefore)
		out := "same as sequential"
		if len(fs) > 0 {
			out = fs[0].Key
		}
		if x.Truncated {
			out = "pruned(visited state)"
		}
		outcomes[out]++
		if len(fs) > 0 && nfail < 5 {
			nfail++
			onFail(c19Case{Cfg: cfg, Choices: append([]int{}, x.Choices...), Race: race}, fs)
		}
	}
	if err := e.Explore(); err != nil {
		c.InternalError("C19 %+v: %v", cfg, err)
	}
	if race && runtime.NumGoroutine() > baseGoroutines {
		time.Sleep(30 * time.Millisecond)
		runtime.Gosched()
		if n := core.RaceErrors(); n > raceBefore {
			raceBefore = n
			outcomes["shared/data-race"]++
			onFail(c19Case{Cfg: cfg, Choices: nil, Race: true}, []F{core.Failf("shared/data-race", "%+v: the race detector reported a data race involving a goroutine that outlived the explored executions (started by the library itself)", cfg)})
		}
	}
	rep = map[string]any{"config": fmt.Sprintf("%+v", cfg), "race_monitor": race, "executions": e.Executions, "scheduling_choices": e.Transitions,
		"distinct_states": len(e.States), "pruned_at_visited_state": e.Pruned, "max_points": e.MaxPoints, "max_threads_incl_goroutines_started_by_the_library": e.MaxThreads, "outcomes": outcomes, "completed": !e.Capped, "wall_s": time.Since(start).Seconds(), "sample_schedule": sample}
	return e, rep
}

func init() {
	core.Register(&core.Prop{
		ID: "C19", Level: "model_checking", Design: "§5 C19",
		Run: func(c *core.Ctx) {
			var jobs []core.WorkerJob
			for _, race := range []bool{false, true} {
				for _, cfg := range c19Configs(c.Tier, race) {
					arg, _ := json.Marshal(map[string]any{"cfg": cfg, "race": race})
					bin := "mc-shim"
					if race {
						bin = "mc-race"
					}
					jobs = append(jobs, core.WorkerJob{Binary: bin, ID: "C19", Arg: "cfg:" + string(arg), Env: []string{"VERIF_TIER=" + c.Tier, "GORACE=halt_on_error=0", fmt.Sprintf("VERIF_BUDGET_S=%d", int(time.Until(c.Deadline).Seconds()))}})
				}
			}
			for _, sh := range []string{`{"C":2,"Frames":6}`, `{"C":2,"Frames":600}`, `{"C":9,"Frames":4}`} {
				jobs = append(jobs, core.WorkerJob{Binary: "mc-race", ID: "C19", Arg: "allinst:" + sh, Env: []string{"VERIF_TIER=" + c.Tier, "GORACE=halt_on_error=0 exitcode=0"}})
			}
			// long buffers (70000 samples), the library being told that there are 2 (of 16) processors to use
			for _, bin := range []string{"mc-shim", "mc-race"} {
				arg := `allinst:{"C":2,"Frames":35000,"FakeProcs":2,"OnePerFn":true}`
				if bin == "mc-race" && c.Quick() {
					arg = `allinst:{"C":2,"Frames":35000,"FakeProcs":2,"OnePerFn":true,"SkipSame":true}` // the race monitor is ten times slower
				}
				jobs = append(jobs, core.WorkerJob{Binary: bin, ID: "C19", Arg: arg, Env: []string{"VERIF_TIER=" + c.Tier, "GORACE=halt_on_error=0 exitcode=0", fmt.Sprintf("VERIF_BUDGET_S=%d", int(time.Until(c.Deadline).Seconds()))}})
			}
			var execs, trans, states, raceExecs int64
			var report []map[string]any
			var stderrAll string
			for i, out := range core.RunWorkers(jobs) {
				if out.Err != nil {
					c.InternalError("worker %s: %v", jobs[i].Arg, out.Err)
					continue
				}
				res := out.Res
				stderrAll += out.Stderr
				for _, fb := range res.Fallbacks {
					c.Note("worker %s: %s", jobs[i].Arg, fb)
					c.Set("library_goroutines_outside_the_explorer", true)
				}
				if jobs[i].Binary == "mc-race" {
					if !res.CanaryOK {
						c.InternalError("race monitor canary failed: %s", res.Error)
					}
					raceExecs += res.Executions
				}
				for _, v := range res.Violations {
					c.Fail(v.Case, v.Failure)
				}
				execs += res.Executions
				trans += res.Transitions
				states += res.States
				report = append(report, res.Configs...)
				if res.Capped {
					c.MarkCapped()
				}
			}
			os.WriteFile(filepath.Join(core.BuildDir(), "C19-race-stderr.txt"), []byte(stderrAll), 0o644)
			if n := core.SaveRaceReports("C19", stderrAll); n > 0 {
				c.Note("%d race detector report(s) saved to %s", n, filepath.Join(core.Root, "replays", "C19-race-reports.txt"))
			}
			c.Set("race_monitor_executions", raceExecs)
			c.Set("library_go_statements_as_explorer_threads", core.GoMode())
			c.Set("states", states)
			c.Set("transitions", trans)
			c.Set("traces_validated_against_impl", execs)
			c.Set("evaluations", execs)
			c.Set("distinct_nontrivial", states)
			c.Set("configs", report)
			for _, r := range report {
				if s, ok := r["sample_schedule"].([]any); ok && len(s) > 0 && c.WantSample() {
					c.Sample(map[string]any{"config": r["config"], "one_explored_schedule": s})
				}
			}
			c.Sample(map[string]any{"cfg": c19Cfg{T: "int8", C: 2, R: 2, W: 2, Menu: 0, Bound: -1}, "threads": "readers: samples, Read, Slice+reads, conversion source; writers: Slice(lo,hi) then SetSample, Write, conversion destination, Channel.SetSample"})
			c.Set("rule", "one shared buffer (6 frames, 1-2 channels, int8/uint16/float32; variants whose shared buffer is a recycled pool buffer with the writers in its spare capacity; readers-only variants with 2-3 channels whose last frame is partly filled and whose header nobody touched before the threads start) split into a read-only region and one 2-frame range per writer; R readers run every read-only entry point (Sample, shape methods, BufferIndex, Read, ReadStriped, Slice + reads, Channel views, the three conversion families with the shared buffer as source), W writers each take their own Slice and use SetSample, Write, WriteStriped, Channel.SetSample and a conversion with the window as destination; every interleaving at operation granularity (state-key pruning) for (R,W) in {(2,0),(3,0),(1,1),(2,2),(1,2)} [+ (4,0),(3,2),(0,3),(2,3) thorough]; oracle: every thread's observations, the final contents and the shape equal those of the sequential schedule; the bounded pass in the -race build reports conflicting accesses; and for every one of the 169 instantiations two readers of one source / two writers into disjoint windows of one destination (6 and 600 frames, 2 and 9 channels) under the race monitor")
			c.Assume("operation granularity suffices because the race monitor shows the operations conflict-free on every explored schedule (conflict-free operations are both-movers)", "the Go race detector is trusted as happens-before monitor; GOMAXPROCS 1 by construction")
		},
		RunCase: func(c *core.Ctx, raw json.RawMessage) []F {
			cs := decode[c19Case](raw)
			if cs.Race && !core.RaceEnabled {
				res, _, err := core.RunWorker("mc-race", "C19", "--worker", "replay:"+string(raw), "GORACE=halt_on_error=0")
				if err != nil {
					return []F{core.Failf("internal/race-replay", "%v", err)}
				}
				var fs []F
				for _, v := range res.Violations {
					fs = append(fs, v.Failure)
				}
				return fs
			}
			var fs []F
			c19Explore(c, cs.Cfg, cs.Race, cs.Choices, func(_ c19Case, f []F) { fs = append(fs, f...) })
			return fs
		},
		Worker: func(c *core.Ctx, arg string) int {
			res := &core.WorkerResult{CanaryOK: true}
			if len(arg) > 7 && arg[:7] == "replay:" {
				cs := decode[c19Case](json.RawMessage(arg[7:]))
				c19Explore(c, cs.Cfg, cs.Race, cs.Choices, func(_ c19Case, fs []F) {
					for _, f := range fs {
						res.Violations = append(res.Violations, core.WorkerViolation{Case: json.RawMessage(arg[7:]), Failure: f})
					}
				})
				core.EmitWorkerResult(res)
				return 0
			}
			if len(arg) > 8 && arg[:8] == "allinst:" {
				// every one of the 169 instantiations, readers and writers, in this one (race) process
				var shape struct {
					C, Frames, FakeProcs int
					OnePerFn, SkipSame   bool
				}
				json.Unmarshal([]byte(arg[8:]), &shape)
				if core.RaceEnabled {
					if err := raceCanary(); err != nil {
						res.CanaryOK = false
						res.Error = err.Error()
						core.EmitWorkerResult(res)
						return 0
					}
				}
				seenFn := map[string]bool{}
				for _, sd := range instOrder() {
					if shape.OnePerFn { // long buffers: one instantiation of each conversion function and the same-type ones
						fn := dyn.ConvName(sd[0], sd[1])
						if sd[0] >= dyn.NB || sd[1] >= dyn.NB || (sd[0] != sd[1] && seenFn[fn]) || (sd[0] == sd[1] && shape.SkipSame) {
							continue
						}
						if sd[0] != sd[1] {
							seenFn[fn] = true
						}
					}
					for _, mode := range []string{"readers", "writers"} {
						cfg := c19Cfg{T: tn(sd[0]), C: shape.C, R: 2, Menu: 0, Bound: 1, Frames: shape.Frames, Mode: mode, Src: tn(sd[0]), Dst: tn(sd[1]), FakeProcs: shape.FakeProcs}
						e, _ := c19Explore(c, cfg, core.RaceEnabled, nil, func(cs c19Case, fs []F) {
							if len(res.Violations) < 6 {
								raw, _ := json.Marshal(cs)
								for _, f := range fs {
									res.Violations = append(res.Violations, core.WorkerViolation{Case: raw, Failure: f})
								}
							}
						})
						res.Executions += e.Executions
						res.Transitions += e.Transitions
					}
				}
				which := "all 169 instantiations (and those with a named type on one side)"
				if shape.OnePerFn {
					which = fmt.Sprintf("one instantiation of each conversion function and the 13 same-type ones, the library being told GOMAXPROCS=%d", shape.FakeProcs)
				}
				res.Configs = []map[string]any{{"config": fmt.Sprintf("%s x {two readers of one source, two writers into disjoint windows}, %d channels, %d frames", which, shape.C, shape.Frames), "race_monitor": core.RaceEnabled, "executions": res.Executions, "completed": true}}
				core.EmitWorkerResult(res)
				return 0
			}
			var job struct {
				Cfg  c19Cfg `json:"cfg"`
				Race bool   `json:"race"`
			}
			if err := json.Unmarshal([]byte(arg[4:]), &job); err != nil {
				res.Error = err.Error()
				core.EmitWorkerResult(res)
				return 2
			}
			if job.Race {
				if err := raceCanary(); err != nil {
					res.CanaryOK = false
					res.Error = err.Error()
					core.EmitWorkerResult(res)
					return 0
				}
			}
			e, rep := c19Explore(c, job.Cfg, job.Race, nil, func(cs c19Case, fs []F) {
				raw, _ := json.Marshal(cs)
				for _, f := range fs {
					res.Violations = append(res.Violations, core.WorkerViolation{Case: raw, Failure: f})
				}
			})
			res.Executions, res.Transitions, res.States, res.Capped = e.Executions, e.Transitions, int64(len(e.States)), e.Capped
			if rep != nil {
				res.Configs = []map[string]any{rep}
			}
			core.EmitWorkerResult(res)
			return 0
		},
	})
}
