package props

import (
	"encoding/json"
	"fmt"

	"verif/mc/core"
	"verif/mc/dyn"
)

// C04 — AppendSample never exceeds or changes the allocated capacity.

type c04Case struct {
	Type       string `json:"type"`
	C, P, S, L int    // root of P frames; buffer under test = root.Slice(S, S+L); Direct: Alloc(C,L,P) itself (S=0)
	Direct     bool
	N          int  // number of AppendSample calls
	Sparse     bool // long buffers: full comparison every 97 calls (and at the end), cheap comparison otherwise
	// ValPass: special values (both zeros, infinities, bounds) appended over storage holding the same
	// values rotated by Shift, compared by bit pattern (valpass.go); only Type, C and Shift matter
	ValPass bool `json:"val_pass,omitempty"`
	Shift   int  `json:"shift,omitempty"`
	// GCWindow: only the window Slice(S, S+L) of Alloc(C, P, P) is kept across garbage collections;
	// allocations of the same shape made afterwards must not be reachable by appending through the window
	GCWindow bool `json:"gc_window,omitempty"`
	// Twin: the buffer under test is parent.Slice(0, parent.Length()) of parent = Alloc(C, L, P): a second
	// header over the same window.  Appending through one must not change the other's length.
	Twin bool `json:"twin,omitempty"`
	// ChanViews: the per-channel views of Alloc(C, L, P) are taken first, the samples appended afterwards:
	// the views share the storage and see the appended values and the growing length
	ChanViews bool `json:"chan_views,omitempty"`
	// Grown: the buffer is Alloc(C, 1, 1) grown by an Append of L frames (it moved to new storage whose
	// capacity the library reports); then N calls
	Grown bool `json:"grown,omitempty"`
	// ShortRoot: the root the window is taken from holds one frame only (Alloc(C, 1, P)): windows begin
	// behind the root's length, inside its capacity
	ShortRoot bool `json:"short_root,omitempty"`
}

func c04Run(cs c04Case) []F {
	return core.Guard("AppendSample", func() []F { return c04RunRaw(cs) })
}

func c04RunRaw(cs c04Case) (fs []F) {
	t := typeByName(cs.Type)
	if cs.ValPass {
		return valAppendSample(t, cs.C, cs.Shift)
	}
	if cs.GCWindow {
		return gcReplay(t, gcShape{cs.C, cs.P, cs.S, cs.S + cs.L}, true, "AppendSample")
	}
	if cs.ChanViews {
		fail := func(kind, format string, a ...any) {
			fs = append(fs, core.Failf("AppendSample/"+kind, "%+v: %s", cs, fmt.Sprintf(format, a...)))
		}
		b := dyn.Alloc(t, al(cs.C, cs.L, cs.P))
		views := make([]dyn.Chan, cs.C)
		for c := range views {
			views[c] = b.Channel(c)
		}
		n := cs.C * cs.L
		for k := 1; k <= cs.N; k++ {
			b.AppendSample(dyn.Tok(t, tk(int64(10+k))))
			if n < cs.C*cs.P {
				n++
			}
			for c, v := range views {
				if v.Length() != ceilDiv(n, cs.C) || v.Capacity() != cs.P || v.Channels() != 1 && v.Channels() != cs.C {
					fail("channel-view", "after call %d (Len %d) the view of channel %d taken before the calls has Length %d Capacity %d, the buffer Length %d Capacity %d", k, b.Len(), c, v.Length(), v.Capacity(), b.Length(), b.Capacity())
					return
				}
				for f := 0; f*cs.C+c < n; f++ {
					var got dyn.Val
					if pn, msg := dyn.Try(func() { got = v.Sample(f) }); pn {
						fail("channel-view", "after call %d (Len %d) Sample(%d) of the view of channel %d taken before the calls panicked: %s", k, b.Len(), f, c, msg)
						return
					}
					if want := b.Sample(f*cs.C + c); got != want {
						fail("channel-view", "after call %d Sample(%d) of the view of channel %d taken before the calls reads %v, the buffer holds %v there", k, f, c, got, want)
						return
					}
				}
			}
		}
		return
	}
	if cs.Twin {
		fail := func(kind, format string, a ...any) {
			fs = append(fs, core.Failf("AppendSample/"+kind, "%+v: %s", cs, fmt.Sprintf(format, a...)))
		}
		parent := dyn.Alloc(t, al(cs.C, cs.L, cs.P))
		fill(parent, 1)
		w := parent.Slice(0, parent.Length())
		hp, hw := hdr(parent), hdr(w)
		for k := 1; k <= cs.N; k++ {
			w.AppendSample(dyn.Tok(t, tk(int64(40+k))))
			if h := hdr(parent); h != hp {
				fail("twin", "call %d through parent.Slice(0, Length()) changed the parent's own shape from %+v to %+v (every Slice yields a header of its own)", k, hp, h)
				return
			}
			if hw.Len < hw.Cap {
				hw.Len++
				hw.Length = ceilDiv(hw.Len, cs.C)
			}
			if h := hdr(w); h != hw {
				fail("view", "after call %d the window has shape %+v, want %+v", k, h, hw)
				return
			}
		}
		// and the other way round
		hw = hdr(w)
		parent.AppendSample(dyn.Tok(t, 9))
		if h := hdr(w); h != hw {
			fail("twin", "AppendSample on the parent changed the shape of its window parent.Slice(0, Length()) from %+v to %+v", hw, h)
		}
		return
	}
	fail := func(kind, format string, a ...any) {
		fs = append(fs, core.Failf("AppendSample/"+kind, "%+v: %s", cs, fmt.Sprintf(format, a...)))
	}
	var root, b, srcParent dyn.Buf
	if cs.Grown {
		// the destination is empty (even L) or holds one frame (odd L); the source is a window, with spare
		// capacity behind it, of a larger filled buffer that must stay as it is
		l0 := cs.L % 2
		b = dyn.Alloc(t, al(cs.C, l0, l0))
		srcParent = dyn.Alloc(t, al(cs.C, cs.L+3, cs.L+3))
		fill(srcParent, 1)
		b.Append(srcParent.Slice(0, cs.L))
		cs.L, cs.P, cs.S = cs.L+l0, b.Capacity(), 0
		if b.Len() != cs.C*cs.L || b.Cap() != cs.C*cs.P || cs.P < cs.L {
			fail("view", "the buffer grown by Append has Len %d Cap %d Capacity %d (want Len %d and whole frames)", b.Len(), b.Cap(), b.Capacity(), cs.C*cs.L)
			return
		}
	}
	st := newStore(cs.C * cs.P)
	if cs.Grown {
		root = full(b)
	} else if cs.Direct {
		b = dyn.Alloc(t, al(cs.C, cs.L, cs.P))
		root = full(b)
	} else if cs.ShortRoot {
		parent := dyn.Alloc(t, al(cs.C, 1, cs.P))
		root = full(parent)
		for i := range st.cells { // (the storage is filled before the window is taken: tokens as below)
			root.SetSample(i, dyn.Tok(t, tk(int64(i+1))))
		}
		b = parent.Slice(cs.S, cs.S+cs.L)
	} else {
		root = dyn.Alloc(t, al(cs.C, cs.P, cs.P))
		b = root.Slice(cs.S, cs.S+cs.L)
	}
	for i := range st.cells {
		st.cells[i] = tk(int64(i + 1))
	}
	for i, x := range st.cells {
		root.SetSample(i, dyn.Tok(t, x))
	}
	m := mview{st: st, off: cs.C * cs.S, n: cs.C * cs.L, ch: cs.C, bits: dyn.Types[t].Bits}
	alias := full(b) // shares the storage; must see every appended value
	malias, _ := m.slice(0, m.capacity())
	cap0 := m.capTotal()
	tok := tk(int64(len(st.cells) + 1))
	for k := 1; k <= cs.N; k++ {
		if p, msg := dyn.Try(func() { b.AppendSample(dyn.Tok(t, tok)) }); p {
			fail("panic", "call %d panicked: %s", k, msg)
			return
		}
		if m.n < cap0 {
			m.set(m.n, tok)
			m.n++
		}
		tok = tk(tok + 1)
		if cs.Sparse && k%97 != 0 && k != cs.N && k != cap0-cs.C*cs.L {
			// cheap step check: shape, the cell just written and the cell after it
			if h, w := hdr(b), m.header(); h != w {
				fail("view", "after call %d: shape %+v, model %+v", k, h, w)
				return
			}
			if m.n > 0 {
				if g := b.Sample(m.n - 1).Tok(); g != m.get(m.n-1) {
					fail("view", "after call %d: sample %d reads %d, model %d", k, m.n-1, g, m.get(m.n-1))
					return
				}
			}
			continue
		}
		if d := cmpView(b, m); d != "" {
			fail("view", "after call %d: %s", k, d)
			return
		}
		if d := cmpStore(root, st); d != "" {
			fail("storage", "after call %d: %s", k, d)
			return
		}
		if d := cmpView(alias, malias); d != "" {
			fail("alias", "after call %d, a view of the same storage taken before: %s", k, d)
			return
		}
	}
	if srcParent != nil {
		for i := 0; i < srcParent.Len(); i++ {
			if g := srcParent.Sample(i).Tok(); g != tk(int64(1+i)) {
				fail("storage", "the buffer was grown by an Append from a window of another buffer; after %d calls sample %d of that other buffer reads %d, it was %d", cs.N, i, g, tk(int64(1+i)))
				return
			}
		}
	}
	// storage identity after all the calls (also those on the full buffer): a write through the parent
	// storage is seen through the buffer and the other way round
	var idx []int
	for i := 0; i < m.n; i++ {
		if m.n > 64 && i >= 8 && i < m.n-8 {
			continue
		}
		idx = append(idx, i)
	}
	for _, i := range idx {
		root.SetSample(m.off+i, dyn.Tok(t, tok))
		if g := b.Sample(i).Tok(); g != tok {
			fail("storage-identity", "after %d calls a write to the parent storage at %d is not seen through the buffer (sample %d reads %d, want %d): the buffer no longer shares the storage it was made over", cs.N, m.off+i, i, g, tok)
			return
		}
		tok = tk(tok + 1)
		b.SetSample(i, dyn.Tok(t, tok))
		if g := root.Sample(m.off + i).Tok(); g != tok {
			fail("storage-identity", "after %d calls a write through the buffer at %d is not seen in the parent storage at %d (reads %d, want %d)", cs.N, i, m.off+i, g, tok)
			return
		}
		tok = tk(tok + 1)
	}
	// after calls on the full buffer: Append gives the same header room again, and the next single-sample
	// append is an ordinary one
	if !cs.Sparse && m.n == cap0 && cs.N > cap0-cs.C*cs.L && m.n%cs.C == 0 && cs.C*cs.P <= 4096 {
		one := dyn.Alloc(t, al(cs.C, 1, 1))
		fill(one, 30)
		b.Append(one)
		if b.Len() != m.n+cs.C || b.Cap() < b.Len() {
			fail("view", "after the full buffer was grown by Append of one frame: Len %d Cap %d, want Len %d", b.Len(), b.Cap(), m.n+cs.C)
			return
		}
		if b.Cap() > b.Len() {
			b.AppendSample(dyn.Tok(t, tok))
			if b.Len() != m.n+cs.C+1 || b.Sample(b.Len()-1).Tok() != tok {
				fail("view", "a buffer that had refused appends while full was grown by Append (Cap %d); the next AppendSample left Len %d (want %d)", b.Cap(), b.Len(), m.n+cs.C+1)
				return
			}
		}
	}
	return
}

func init() {
	core.Register(&core.Prop{
		ID: "C04", Level: "model_checking", Design: "§5 C04",
		Run: func(c *core.Ctx) {
			extra := 40
			if !c.Quick() {
				extra = 600
			}
			var cases []c04Case
			for t := 0; t < dyn.NB; t++ {
				for C := 1; C <= 4; C++ {
					for P := 0; P <= 4; P++ {
						for S := 0; S <= P; S++ {
							for L := 0; S+L <= P; L++ {
								cases = append(cases, c04Case{Type: tn(t), C: C, P: P, S: S, L: L, N: C*(P-S-L) + extra})
							}
						}
						for L := 0; L <= P; L++ {
							cases = append(cases, c04Case{Type: tn(t), C: C, P: P, L: L, Direct: true, N: C*(P-L) + extra})
						}
					}
				}
			}
			for _, t := range []int{dyn.Int8, dyn.Uint16, dyn.Float32, dyn.Int64} {
				for C := 1; C <= 4; C++ {
					for _, P := range []int{16, 100} {
						for _, w := range [][2]int{{0, 0}, {0, P - 1}, {1, P / 2}, {P / 2, 1}, {P - 1, 0}} {
							cases = append(cases, c04Case{Type: tn(t), C: C, P: P, S: w[0], L: w[1], N: C*(P-w[0]-w[1]) + extra})
						}
					}
				}
			}
			for _, t := range []int{dyn.Int8, dyn.Float64, dyn.Uint32} { // long buffers, thousands of calls
				for C := 1; C <= 3; C++ {
					cases = append(cases, c04Case{Type: tn(t), C: C, P: 1500, S: 0, L: 0, N: C*1500 + 300, Sparse: true})
					cases = append(cases, c04Case{Type: tn(t), C: C, P: 1500, S: 700, L: 100, N: C*700 + 300, Sparse: true})
				}
				for _, C := range append(seq(5, 70), 255, 256, 257, 300, 1024) { // every channel count up to 70 and around 256, short buffers
					cases = append(cases, c04Case{Type: tn(t), C: C, P: 3, S: 1, L: 0, N: 2*C + 5})
				}
			}
			// more than 2^24 samples (single-precision arithmetic and 24-bit fields stop being exact): a nearly
			// full window of such a buffer, filled sample by sample to the end and beyond
			for _, cp := range [][2]int{{1, 1<<24 + 8}, {2, 1<<23 + 6}, {3, (1<<24)/3 + 9}, {5, (1<<24)/5 + 7}} {
				C, P := cp[0], cp[1]
				cases = append(cases, c04Case{Type: "int8", C: C, P: P, S: 0, L: P - 3, N: 3*C + 4, Sparse: true})
			}
			// every channel count 71..1030 on short buffers of 3 and 7 frames (the per-channel length after
			// every call), one type
			for C := 71; C <= 1030; C++ {
				for _, P := range []int{3, 7} {
					cases = append(cases, c04Case{Type: "int8", C: C, P: P, S: 0, L: 0, Direct: true, N: C*P + 2, Sparse: true})
				}
			}
			for _, t := range []int{dyn.Int8, dyn.Int32, dyn.Float32} { // windows that begin behind the length of a short root
				for C := 1; C <= 3; C++ {
					for P := 2; P <= 4; P++ {
						for S := 1; S <= P; S++ {
							for L := 0; S+L <= P; L++ {
								cases = append(cases, c04Case{Type: tn(t), C: C, P: P, S: S, L: L, ShortRoot: true, N: C*(P-S-L) + 3})
							}
						}
					}
				}
			}
			for _, t := range []int{dyn.Int8, dyn.Int16, dyn.Float64} { // buffers that were grown by Append first
				for C := 1; C <= 3; C++ {
					for L := 1; L <= 4; L++ {
						cases = append(cases, c04Case{Type: tn(t), C: C, P: L + 1, L: L, Grown: true, N: C*24 + 5})
					}
				}
			}
			for _, t := range valTypes() { // special values, by bit pattern
				for C := 1; C <= 3; C++ {
					for sh := 0; sh < len(valSpecials(t)); sh++ {
						cases = append(cases, c04Case{Type: tn(t), C: C, ValPass: true, Shift: sh, N: C * ((len(valSpecials(t)) + C - 1) / C), P: 1})
					}
				}
			}
			for _, t := range []int{dyn.Int8, dyn.Float32, dyn.Uint64} { // a second header over the same window
				for C := 1; C <= 3; C++ {
					for P := 1; P <= 4; P++ {
						for L := 0; L < P; L++ {
							cases = append(cases, c04Case{Type: tn(t), C: C, P: P, L: L, Twin: true, N: C*(P-L) + 2})
						}
					}
				}
			}
			for _, t := range []int{dyn.Int8, dyn.Int32, dyn.Float64} { // per-channel views taken before the calls
				for C := 1; C <= 3; C++ {
					for P := 1; P <= 4; P++ {
						for L := 0; L < P; L += 2 {
							cases = append(cases, c04Case{Type: tn(t), C: C, P: P, L: L, ChanViews: true, N: C*(P-L) + 2})
						}
					}
				}
			}
			gcWindowPass([]int{dyn.Int8, dyn.Int32, dyn.Float64, dyn.MyInt16ID()}, true, "AppendSample", func(t int, sh gcShape, fs []F) {
				c.Check(c04Case{Type: tn(t), C: sh.C, P: sh.K, S: sh.S, L: sh.E - sh.S, GCWindow: true, N: 3}, true, fs)
			})
			var calls int64
			for _, cs := range cases {
				calls += int64(cs.N)
			}
			c.ParallelFor(len(cases), func(i int) {
				c.Check(cases[i], cases[i].P > cases[i].S+cases[i].L, c04Run(cases[i]))
			})
			// every call is a transition of the (Len) state machine of one buffer; states are (case, Len) pairs
			var states int64
			for _, cs := range cases {
				states += int64(cs.C*(cs.P-cs.S-cs.L)) + 1
			}
			c.Set("states", states)
			c.Set("transitions", calls)
			c.Set("traces_validated_against_impl", int64(len(cases)))
			c.Set("evaluations", calls)
			c.Sample(cases[57])
			c.Sample(cases[len(cases)-1])
			c.Set("rule", fmt.Sprintf("13 element types x C in 1..4 x storage of P in 0..4 frames x window start S x initial length L (windows of a larger buffer, and direct Alloc(C,L,P)); each history is spare capacity + %d AppendSample calls, checked after every call against the views model (state = Len; transition = one call); non-trivial = has spare capacity; plus storages of 16 and 100 frames for 4 element types, 1500-frame storages (thousands of calls, full comparison every 97th call) and every channel count 5..70 on short buffers for 3 types; and, for all 46 element types of the facade (built-in, named, same-named), every special value (both zeros, infinities, largest/smallest magnitudes, integer bounds) appended over a cell holding every other one, compared by bit pattern", extra))
			c.Assume("storage identity is observed by aliasing (a full-capacity view taken before the first call and the root buffer), not by address")
		},
		RunCase: func(c *core.Ctx, raw json.RawMessage) []F { return c04Run(decode[c04Case](raw)) },
	})
}
