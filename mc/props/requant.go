package props

import (
	"encoding/json"
	"fmt"
	"sync/atomic"

	"verif/mc/core"
	"verif/mc/dyn"
)

// C06 / C07 — fixed-point requantisation (SignedAsSigned, SignedAsUnsigned,
// UnsignedAsSigned, UnsignedAsUnsigned; 121 instantiations).

type rqCase struct {
	S, D string
	// Amps are source amplitudes (one value, or a lower and a higher one for an order violation)
	Amps []int64
	Ch   []int // channel count of the buffers each value went through
	Pos  []int // interleaved position of each value inside its block
	Len  []int // length of that block
}

// ampToRaw / rawToAmp convert between amplitude and the raw code of a format.
func ampToRaw(k dyn.Kind, bits int, a int64) uint64 {
	if k == dyn.Signed {
		return uint64(a)
	}
	r := uint64(a) + uint64(1)<<uint(bits-1)
	if bits < 64 {
		r &= uint64(1)<<uint(bits) - 1
	}
	return r
}

func rawToAmp(k dyn.Kind, bits int, r uint64) int64 {
	if k == dyn.Signed {
		return int64(r)
	}
	return int64(r - uint64(1)<<uint(bits-1))
}

func minAmp(bits int) int64 { return -(int64(1) << uint(bits-1)) }
func maxAmp(bits int) int64 { return int64(1)<<uint(bits-1) - 1 }

// rqOracle checks one (source amplitude, result amplitude) pair; which selects the
// property ("C06": reference levels; "C07": accuracy / identity).
func rqOracle(which string, bs, bd int, a, r int64) (kind, msg string) {
	if which == "C06" {
		switch {
		case a == minAmp(bs) && r != minAmp(bd):
			return "lowest", fmt.Sprintf("lowest code (amplitude %d) maps to amplitude %d, want lowest %d", a, r, minAmp(bd))
		case a == maxAmp(bs) && r != maxAmp(bd):
			return "highest", fmt.Sprintf("highest code (amplitude %d) maps to amplitude %d, want highest %d", a, r, maxAmp(bd))
		case a == 0 && r != 0:
			return "zero", fmt.Sprintf("zero-amplitude code maps to amplitude %d", r)
		}
		return "", ""
	}
	switch {
	case bs > bd:
		k := uint(bs - bd)
		fl := a >> k
		ce := fl
		if a&(int64(1)<<k-1) != 0 {
			ce++
		}
		if r < fl || r > ce {
			return "accuracy", fmt.Sprintf("amplitude %d / 2^%d lies in [%d,%d] but the result amplitude is %d", a, k, fl, ce, r)
		}
	case bs == bd:
		if r != a {
			return "identity", fmt.Sprintf("same depth: amplitude %d became %d", a, r)
		}
	}
	return "", ""
}

type rqDomain struct {
	name string
	gen  seqGen
	// primary: counted for distinct_nontrivial (its values are distinct by construction)
	primary    bool
	exhaustive bool
	shards     int
}

func rqDomains(c *core.Ctx, bs, bd int, named bool) []rqDomain {
	var ds []rqDomain
	switch {
	case bs == 8:
		// every value, 67 times in a row: 8-bit sources also go through long buffers
		ds = append(ds, rqDomain{"all (each value 67x)", genRepeat(minAmp(bs), maxAmp(bs), 67), true, true, 1})
	case bs <= 16:
		ds = append(ds, rqDomain{"all", genRange(minAmp(bs), maxAmp(bs)), true, true, 1})
	case bs == 32 && !c.Quick() && !named:
		// (instantiations with a named element type share their code with the built-in twin: they get the
		// alphabet, not all 2^32 values)
		ds = append(ds, rqDomain{"all", genRange(minAmp(bs), maxAmp(bs)), true, true, 64})
	default:
		ds = append(ds, rqDomain{"boundary-alphabet", genList(boundaryAlphabet(bs)), true, false, 1})
		nl := int64(1) << 18
		if !c.Quick() {
			nl = 1 << 24
		}
		ds = append(ds, rqDomain{"lattice (min + i*step, odd step)", genLattice(bs, nl), false, false, 16})
		if bs > bd {
			if bd <= 16 {
				ds = append(ds, rqDomain{"cell-endpoints", genCells(bs, bd), false, false, 16})
			} else if bd == 32 && !c.Quick() {
				ds = append(ds, rqDomain{"cell-endpoints", genCells(bs, bd), false, false, 256})
			}
		}
	}
	return ds
}

func rqEvalCase(which string, cs rqCase) (fs []F) {
	s, d := typeByName(cs.S), typeByName(cs.D)
	ts, td := dyn.Types[s], dyn.Types[d]
	vals := make([]uint64, len(cs.Amps))
	for i, a := range cs.Amps {
		vals[i] = ampToRaw(ts.Kind, ts.Bits, a)
	}
	out, out2 := evalAt(s, d, vals, cs.Pos, cs.Len, cs.Ch, which == "C07" && td.Bits > ts.Bits)
	name := dyn.ConvName(s, d) + "/" + cs.S + "->" + cs.D
	var res []int64
	for i, a := range cs.Amps {
		r := rawToAmp(td.Kind, td.Bits, out[i])
		res = append(res, r)
		if kind, msg := rqOracle(which, ts.Bits, td.Bits, a, r); kind != "" {
			fs = append(fs, F{Key: name + "/" + kind, Code: a, HasCode: true, Msg: name + ": " + msg})
		}
	}
	if which == "C06" && len(res) == 2 && cs.Amps[0] <= cs.Amps[1] && res[0] > res[1] {
		fs = append(fs, F{Key: name + "/order", Code: cs.Amps[1], HasCode: true,
			Msg: fmt.Sprintf("%s: amplitude %d -> %d but the larger amplitude %d -> %d (order inverted)", name, cs.Amps[0], res[0], cs.Amps[1], res[1])})
	}
	if which == "C07" && td.Bits > ts.Bits {
		for i, a := range cs.Amps {
			if g := rawToAmp(ts.Kind, ts.Bits, out2[i]); g != a {
				fs = append(fs, F{Key: name + "/roundtrip", Code: a, HasCode: true,
					Msg: fmt.Sprintf("%s then %s back: amplitude %d became %d, then %d", name, dyn.ConvName(d, s), a, res[i], g)})
			}
		}
	}
	return
}

func rqRun(which string) func(c *core.Ctx) {
	return func(c *core.Ctx) {
		var evals, distinct atomic.Int64
		inst, exh := 0, 0
		// first use of every instantiation: sequentially, in a fixed order, before anything else converts
		fixed := func(s, d int) bool { return dyn.Types[s].Kind != dyn.Float && dyn.Types[d].Kind != dyn.Float }
		digests := ctxDigests(fixed)
		for _, sd := range instOrder() {
			{
				s, d := sd[0], sd[1]
				ts, td := dyn.Types[s], dyn.Types[d]
				if ts.Kind == dyn.Float || td.Kind == dyn.Float {
					continue
				}
				inst++
				name := dyn.ConvName(s, d) + "/" + ts.Name + "->" + td.Name
				allExh := true
				doms := rqDomains(c, ts.Bits, td.Bits, ts.Named || td.Named)
				if (ts.Named || td.Named) && len(doms) > 1 {
					doms = doms[:1] // named instantiations: the primary domain only (the rest is covered by the built-in twin)
				}
				for _, dom := range doms {
					if !dom.exhaustive {
						allExh = false
					}
					nfail := newFailCap(200)
					roundtrip := which == "C07" && td.Bits > ts.Bits
					newEval := func(ch int) func(in, out []int64) {
						fwd := dyn.ConvBlockCh(s, d, blockN, ch)
						var back func(in, out []uint64)
						if roundtrip {
							back = dyn.ConvBlockCh(d, s, blockN, ch)
						}
						rin := make([]uint64, blockN)
						rout := make([]uint64, blockN)
						rback := make([]uint64, blockN)
						return func(in, out []int64) {
							n := len(in)
							for i, a := range in {
								rin[i] = ampToRaw(ts.Kind, ts.Bits, a)
							}
							fwd(rin[:n], rout[:n])
							for i := 0; i < n; i++ {
								out[i] = rawToAmp(td.Kind, td.Bits, rout[i])
							}
							if roundtrip {
								back(rout[:n], rback[:n])
								for i, a := range in {
									if rawToAmp(ts.Kind, ts.Bits, rback[i]) != a && nfail.ok("roundtrip") {
										cs := rqCase{ts.Name, td.Name, []int64{a}, []int{ch}, []int{i}, []int{n}}
										c.Fail(cs, rqEvalCase(which, cs)...)
									}
								}
							}
						}
					}
					point := func(p sweepPos, a, r int64) {
						if kind, _ := rqOracle(which, ts.Bits, td.Bits, a, r); kind != "" && nfail.ok(kind) {
							chs, pos, lens := posOf(p, false)
							cs := rqCase{ts.Name, td.Name, []int64{a}, chs, pos, lens}
							fs := rqEvalCase(which, cs)
							if len(fs) == 0 {
								fs = []F{histDep(name, fmt.Sprintf("%s: failure %s at amplitude %d (channels %d, position %d) seen in the sweep does not reproduce in isolation", name, kind, a, p.Ch, p.Idx))}
							}
							c.Fail(cs, fs...)
						}
					}
					orderFail := func(p sweepPos, pi, po, in, out int64) {
						if which != "C06" {
							return
						}
						if nfail.ok("order") {
							chs, pos, lens := posOf(p, true)
							cs := rqCase{ts.Name, td.Name, []int64{pi, in}, chs, pos, lens}
							fs := rqEvalCase(which, cs)
							if len(fs) == 0 {
								fs = []F{histDep(name, fmt.Sprintf("%s: order violation %d->%d, %d->%d seen in the sweep does not reproduce in isolation", name, pi, po, in, out))}
							}
							c.Fail(cs, fs...)
						}
					}
					var n int64
					if dom.shards == 1 {
						// small domains: the whole sequence once per channel count
						for _, ch := range []int{1, 2, 3} {
							n = runSeq(c, dom.gen, 1, []int{ch}, newEval, point, orderFail)
							evals.Add(n)
						}
					} else {
						n = runSeq(c, dom.gen, dom.shards, []int{2, 1, 3}, newEval, point, orderFail)
						evals.Add(n)
					}
					if dom.primary {
						if ts.Bits == 8 {
							n /= 67
						}
						distinct.Add(n)
					}
					if c.WantSample() {
						c.Sample(map[string]any{"instantiation": name, "domain": dom.name, "values": n})
					}
				}
				if allExh {
					exh++
				}
				// round trip over buffers of odd and other non-round lengths (remainder loops of paths that
				// handle several samples per iteration): extreme amplitudes up to the very last position
				if which == "C07" && td.Bits > ts.Bits && !c.Expired() {
					hi := int64(1)<<uint(ts.Bits-1) - 1
					lo := -hi - 1
					pat := []int64{hi, lo, -1, 1, hi - 1, lo + 1, 2}
					nf := newFailCap(3)
					for _, L := range []int{1, 2, 3, 5, 6, 7, 9, 11, 13, 15, 17, 31, 33, 63, 65, 127, 129, 255, 257, 511, 513, 1023, 1025, 4097} {
						for ch := 1; ch <= 2; ch++ {
							if L%ch != 0 {
								continue
							}
							fwd, back := dyn.ConvBlockCh(s, d, L, ch), dyn.ConvBlockCh(d, s, L, ch)
							rin, rout, rback := make([]uint64, L), make([]uint64, L), make([]uint64, L)
							for i := range rin {
								rin[i] = ampToRaw(ts.Kind, ts.Bits, pat[(i+L)%len(pat)])
							}
							fwd(rin, rout)
							back(rout, rback)
							for i := range rin {
								if a := pat[(i+L)%len(pat)]; rawToAmp(ts.Kind, ts.Bits, rback[i]) != a && nf.ok("roundtrip") {
									cs := rqCase{ts.Name, td.Name, []int64{a}, []int{ch}, []int{i}, []int{L}}
									fs := rqEvalCase(which, cs)
									if len(fs) == 0 {
										fs = []F{histDep(name, fmt.Sprintf("%s then back, buffers of %d samples (%d channels): amplitude %d at position %d became %d", name, L, ch, a, i, rawToAmp(ts.Kind, ts.Bits, rback[i])))}
									}
									c.Fail(cs, fs...)
								}
							}
							evals.Add(int64(L))
						}
					}
				}
			}
		}
		c.Set("evaluations", evals.Load())
		c.Set("distinct_nontrivial", distinct.Load())
		judge := func(s, d int, in, out uint64) (string, string) {
			ts, td := dyn.Types[s], dyn.Types[d]
			return rqOracle(which, ts.Bits, td.Bits, rawToAmp(ts.Kind, ts.Bits, in), rawToAmp(td.Kind, td.Bits, out))
		}
		// C06's order clause works both ways for equal inputs: equal samples must give equal results
		wait := c.ReverseOrderPassAsync("mc-shim") // a process of its own, meanwhile
		ctxPasses(c, which, judge, which == "C06", fixed)
		c.Set("ctx_digests", digests)
		if res := wait(); res != nil && which == "C06" {
			ctxCompareDigests(c, digests, res.Digests)
		}
		c.Set("evaluations", evals.Load()+c.CtxEvals())
		c.Set("instantiations", inst)
		c.Set("instantiations_with_exhaustive_source_domain", exh)
		c.Set("exhaustive", exh == inst)
		tier32 := "the boundary alphabet (+-3 around 0, +-2^k, +-1.5*2^k, the bounds) plus the 4 end points of every quantisation cell of 8/16-bit destinations"
		if !c.Quick() {
			tier32 = "every value (2^32)"
		}
		c.Set("rule", "all 121 signed/unsigned instantiations through the real conversion on real buffers with 1, 2 and 3 channels, in blocks whose destination is pre-filled with garbage; sources of 8 and 16 bits: every value; 32 bits: "+tier32+"; 64-bit sources: boundary alphabet, an arithmetic lattice of 2^18 (thorough 2^24) values with an odd step across the whole range, plus cell end points (8/16-bit destinations; 32-bit in the thorough tier); every sequence ascending in amplitude, so order preservation is a streaming never-decreases check carried across blocks and shards; distinct_nontrivial counts (instantiation, source value) pairs of the primary sequence only (distinct by construction); every value is non-trivial (it is converted and judged); plus the context passes (ctxpass.go): all ordered pairs of 12 special values at every lane offset in buffers of > 4096 samples with 1-3 channels, a single special at each position 0..130 among 200 calm samples, and every ordered pair of instantiations back to back; and the whole quick sweep again in a fresh process with the instantiations in reverse order")
		c.Assume("64-bit sources (int64,int,uint64,uint,uintptr) are covered by a finite alphabet, not exhaustively", "exact integer oracle; no floating point in the oracle", "linux/amd64")
	}
}

func init() {
	for _, w := range []string{"C06", "C07"} {
		w := w
		core.Register(&core.Prop{
			ID: w, Level: "exploration", Design: "§5 C06, C07",
			Run:    rqRun(w),
			Worker: core.SweepWorker,
			RunCase: func(c *core.Ctx, raw json.RawMessage) []F {
				if isCtxCase(raw) {
					judge := func(s, d int, in, out uint64) (string, string) {
						ts, td := dyn.Types[s], dyn.Types[d]
						return rqOracle(w, ts.Bits, td.Bits, rawToAmp(ts.Kind, ts.Bits, in), rawToAmp(td.Kind, td.Bits, out))
					}
					return ctxReplay(c, raw, judge, w == "C06")
				}
				return rqEvalCase(w, decode[rqCase](raw))
			},
		})
	}
}
