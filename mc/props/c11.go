//go:build verif

package props

import (
	"encoding/json"
	"fmt"
	"hash/fnv"
	"math"
	"os"
	"path/filepath"
	"runtime"
	"time"
	"unsafe"

	va "pipelined.dev/signal/verifatomic"
	vs "pipelined.dev/signal/verifsync"
	"verif/mc/core"
	"verif/mc/dyn"
	"verif/mc/poolctl"
	"verif/mc/schedx"
)

// C11 — the pool allocator is safe under concurrent get and put.
// Real goroutines doing real Get / use / Put cycles, serialised by the baton scheduler;
// every interleaving (or every interleaving within a preemption bound) and every answer of
// the pool is enumerated.  The same exploration in the -race binary makes the Go race
// detector a happens-before monitor of each schedule.

type c11Cfg struct {
	T       string `json:"type"`
	C, L, K int
	G, M    int  // goroutines x cycles
	ByValue bool // every goroutine uses its own copy of the allocator value
	Bound   int  // preemption bound, -1 unbounded
	EnvCost int  // cost of a non-default pool answer against the bound
	Warm    bool // one Get/Put on the allocator before it is copied / shared (set-up, not scheduled)
	// Window: every goroutine keeps only b.Slice(0, Capacity) of the buffer it got (the header it was
	// given becomes unreachable), forces a garbage collection while it holds the window, and puts the
	// window back
	Window bool `json:"window,omitempty"`
	// Shrink: the buffer is put back as b.Slice(0, Length-1) (a window from frame 0 keeps the whole
	// capacity and is a legal argument of Put); negZero: float holders also write -0.0
	Shrink bool `json:"shrink,omitempty"`
	// Pair (pools with Length 0): every goroutine holds two buffers of the pool at a time, fills the second,
	// appends it to the first (which has exactly the room) and puts both back: the two stay two storages
	Pair bool `json:"pair,omitempty"`
	// Cross (ByValue): a buffer obtained through one copy of the allocator value is put back through the
	// copy of the next goroutine (every copy is a handle to the same pool)
	Cross bool `json:"cross,omitempty"`
}

type c11Case struct {
	Cfg     c11Cfg `json:"cfg"`
	Choices []int  `json:"choices"`
	Race    bool   `json:"race,omitempty"` // to be replayed in the -race binary
}

type c11H struct {
	cfg   c11Cfg
	t     int
	pools [schedx.MaxThreads]dyn.Pool
	fails [schedx.MaxThreads][]string
	// written and read across threads: only in norace functions
	hold     [schedx.MaxThreads]unsafe.Pointer
	cycle    [schedx.MaxThreads]int
	nfail    [schedx.MaxThreads]int
	known    [64]unsafe.Pointer
	kbuf     [64]dyn.Buf
	nknown   int
	initFail string
}

func (h *c11H) Threads() int { return h.cfg.G }

func (h *c11H) Init() {
	poolctl.ResetSched()
	h.resetShared()
	p := dyn.NewPool(h.t, al(h.cfg.C, h.cfg.L, h.cfg.K))
	h.initFail = ""
	if h.cfg.Warm {
		if pn, msg := dyn.Try(func() { p.Put(p.Get()) }); pn {
			h.initFail = "the warm-up Get/Put on the fresh allocator panicked: " + msg
		}
	}
	for i := 0; i < h.cfg.G; i++ {
		h.fails[i] = nil
		if h.cfg.ByValue {
			h.pools[i] = p.Copy()
		} else {
			h.pools[i] = p
		}
	}
}

//go:norace
func (h *c11H) resetShared() {
	for i := range h.hold {
		h.hold[i] = nil
		h.cycle[i] = 0
		h.nfail[i] = 0
	}
	for i := 0; i < h.nknown; i++ {
		h.known[i] = nil
		h.kbuf[i] = nil
	}
	h.nknown = 0
}

//go:norace
func (h *c11H) acquire(id int, b dyn.Buf) (sameAs int) {
	ptr := b.Ptr()
	sameAs = -1
	for i := 0; i < h.cfg.G; i++ {
		if i != id && h.hold[i] == ptr {
			sameAs = i
		}
	}
	h.hold[id] = ptr
	found := false
	for i := 0; i < h.nknown; i++ {
		if h.known[i] == ptr {
			found = true
		}
	}
	if !found && h.nknown < len(h.known) {
		h.known[h.nknown] = ptr
		h.kbuf[h.nknown] = b
		h.nknown++
	}
	return
}

//go:norace
func (h *c11H) release(id int) { h.hold[id] = nil }

//go:norace
func (h *c11H) progress(id, cycle, nfail int) { h.cycle[id] = cycle; h.nfail[id] = nfail }

func (h *c11H) fail(id int, format string, a ...any) {
	h.fails[id] = append(h.fails[id], fmt.Sprintf("goroutine %d: ", id)+fmt.Sprintf(format, a...))
}

func (h *c11H) Run(id int) {
	cfg := h.cfg
	p := h.pools[id]
	want := header{cfg.C, dyn.Types[h.t].Bits, cfg.C * cfg.L, cfg.C * cfg.K, cfg.L, cfg.K}
	if cfg.C == 0 {
		want.Length, want.Capacity = 0, 0 // a pool of buffers without channels: nothing to hold
	}
	for c := 0; c < cfg.M; c++ {
		h.progress(id, c, len(h.fails[id]))
		schedx.Point("get")
		b := p.Get()
		if hd := hdr(b); hd != want {
			h.fail(id, "cycle %d: buffer obtained has shape %+v, a fresh one %+v", c, hd, want)
		}
		if cfg.Window {
			b = b.Slice(0, cfg.L) // same length, same capacity; the header that Get returned is dropped
		}
		if o := h.acquire(id, b); o >= 0 {
			h.fail(id, "cycle %d: Get returned the buffer that goroutine %d still holds", c, o)
		}
		fb := full(b)
		n := fb.Len()
		for i := 0; i < n; i++ {
			if v := fb.Sample(i); v.B != 0 {
				h.fail(id, "cycle %d: buffer obtained is not zero: sample %d reads %v", c, i, v)
				break
			}
		}
		tok := dyn.Tok(h.t, int64(1+id*10+c))
		schedx.Point("stamp first half")
		for i := 0; i < n/2; i++ {
			fb.SetSample(i, tok)
		}
		schedx.Point("stamp second half")
		for i := n / 2; i < n; i++ {
			fb.SetSample(i, tok)
		}
		if cfg.Window {
			schedx.Point("gc")
			runtime.GC() // finalizers of unreachable headers become runnable; they run while threads wait for the baton
			schedx.Point("after gc")
		}
		schedx.Point("verify")
		for i := 0; i < n; i++ {
			if v := fb.Sample(i); v != tok {
				h.fail(id, "cycle %d: sample %d of the buffer this goroutine holds changed from %v to %v while it held it (storage shared with another holder)", c, i, tok, v)
				break
			}
		}
		if cfg.Pair && cfg.L == 0 {
			schedx.Point("get second")
			b2 := p.Get()
			if hd := hdr(b2); hd != want {
				h.fail(id, "cycle %d: second buffer obtained has shape %+v, a fresh one %+v", c, hd, want)
			}
			fb2 := full(b2)
			tok2 := dyn.Tok(h.t, int64(2+id*10+c))
			for i := 0; i < fb2.Len(); i++ {
				if v := fb2.Sample(i); v.B != 0 {
					h.fail(id, "cycle %d: second buffer obtained is not zero: sample %d reads %v (the goroutine had stamped the first one it holds with %v)", c, i, v, tok)
					break
				}
				fb2.SetSample(i, tok2)
			}
			schedx.Point("append second to first")
			b.Append(fb2)
			if b.Len() != fb2.Len() || b.Cap() != cfg.C*cfg.K {
				h.fail(id, "cycle %d: after appending a full buffer of the pool to an empty one, Len %d Cap %d (want %d, %d)", c, b.Len(), b.Cap(), fb2.Len(), cfg.C*cfg.K)
			}
			for i := 0; i < n; i++ {
				fb.SetSample(i, tok)
			}
			for i := 0; i < fb2.Len(); i++ {
				if v := fb2.Sample(i); v != tok2 {
					h.fail(id, "cycle %d: sample %d of the second buffer this goroutine holds changed from %v to %v when the first one, to which it had been appended, was overwritten (two buffers of the pool share storage)", c, i, tok2, v)
					break
				}
			}
			schedx.Point("put second")
			p.Put(b2)
		}
		if dyn.Types[h.t].Kind == dyn.Float && n > 0 {
			// inverted silence: a value that compares equal to zero but is not the zero a fresh buffer holds
			fb.SetSample(n-1, dyn.F(math.Copysign(0, -1)))
		}
		schedx.Point("put")
		h.release(id)
		if cfg.Shrink && cfg.L > 0 {
			b = b.Slice(0, cfg.L-1)
		}
		if cfg.Cross {
			h.pools[(id+1)%cfg.G].Put(b)
			continue
		}
		p.Put(b)
	}
	h.progress(id, cfg.M, len(h.fails[id]))
}

func (h *c11H) Finish() []string {
	var r []string
	if h.initFail != "" {
		r = append(r, h.initFail)
	}
	for i := 0; i < h.cfg.G; i++ {
		r = append(r, h.fails[i]...)
	}
	return r
}

// Key hashes the shared state: per thread (cycle, held buffer, failures), every known
// buffer's length and contents, the pool's free list.  Only used in the non-race build.
func (h *c11H) Key() (uint64, bool) {
	if core.RaceEnabled {
		return 0, false
	}
	f := fnv.New64a()
	var b [8]byte
	put := func(x int) {
		for i := 0; i < 8; i++ {
			b[i] = byte(x >> (8 * i))
		}
		f.Write(b[:])
	}
	idx := func(p unsafe.Pointer) int {
		for i := 0; i < h.nknown; i++ {
			if h.known[i] == p {
				return i
			}
		}
		return -1
	}
	for i := 0; i < h.cfg.G; i++ {
		put(h.cycle[i])
		put(idx(h.hold[i]))
		put(h.nfail[i])
	}
	for i := 0; i < h.nknown; i++ {
		kb := h.kbuf[i]
		put(kb.Len())
		fb := full(kb)
		for k := 0; k < fb.Len(); k++ {
			put(int(fb.Sample(k).B))
		}
	}
	for _, x := range poolctl.FreeItems() {
		put(1000 + idx(ptrOf(x)))
	}
	return f.Sum64(), true
}

func newC11H(cfg c11Cfg) *c11H { return &c11H{cfg: cfg, t: typeByName(cfg.T)} }

func c11Explorer(cfg c11Cfg) *schedx.Explorer {
	return &schedx.Explorer{H: newC11H(cfg), Bound: cfg.Bound, EnvCost: cfg.EnvCost, Prune: cfg.Bound < 0 && !core.RaceEnabled, Horizon: 2000}
}

func c11Configs(tier string, race bool) []c11Cfg {
	var r []c11Cfg
	type sh struct {
		t       string
		C, L, K int
	}
	shapes := []sh{{"int8", 1, 0, 2}, {"float64", 2, 1, 2}, {"int16", 2, 0, 0}}
	add := func(G, M, bound, envCost int) {
		for _, s := range shapes {
			for _, bv := range []bool{false, true} {
				r = append(r, c11Cfg{T: s.t, C: s.C, L: s.L, K: s.K, G: G, M: M, ByValue: bv, Bound: bound, EnvCost: envCost})
			}
			// copies of the allocator value taken after it has been used (a Get/Put round): state that the
			// allocator keeps in its own value, not behind a pointer, is duplicated by the copy
			r = append(r, c11Cfg{T: s.t, C: s.C, L: s.L, K: s.K, G: G, M: M, ByValue: true, Bound: bound, EnvCost: envCost, Warm: true})
		}
	}
	// long buffers (>= 1024 samples, > 32 KiB), allocator warmed up before it is copied
	addBig := func(G, M, bound, envCost int) {
		for _, s := range []sh{{"float64", 2, 0, 512}, {"int8", 1, 0, 1100}, {"float64", 1, 0, 5000}} {
			for _, bv := range []bool{false, true} {
				for _, warm := range []bool{false, true} {
					r = append(r, c11Cfg{T: s.t, C: s.C, L: s.L, K: s.K, G: G, M: M, ByValue: bv, Bound: bound, EnvCost: envCost, Warm: warm})
				}
			}
		}
	}
	// one very large pool buffer (more than 2^21 samples): paths that split the work of Put across goroutines
	r = append(r, c11Cfg{T: "int8", C: 1, L: 0, K: 1<<21 + 5, G: 2, M: 1, Bound: 0})
	if race {
		addBig(2, 1, 2, 0)
		r = append(r, c11Cfg{T: "int8", C: 1, L: 0, K: 2, G: 2, M: 1, Bound: 1, Pair: true})
		// the happens-before monitor: bounded exploration (no state pruning in race mode)
		if tier == "thorough" {
			add(2, 1, -1, 0)
			add(2, 2, 3, 0)
			add(3, 1, 3, 0)
			add(3, 2, 2, 1)
			add(4, 1, 2, 1)
			add(4, 2, 1, 1)
		} else {
			add(2, 1, 2, 0)
			add(2, 2, 2, 0)
			add(3, 1, 2, 0)
			add(3, 2, 2, 1)
		}
		return r
	}
	add(2, 1, -1, 0)
	addBig(2, 1, -1, 0)
	// buffers are put back as shorter windows from frame 0
	for _, bv := range []bool{false, true} {
		r = append(r, c11Cfg{T: "float64", C: 2, L: 1, K: 2, G: 2, M: 2, ByValue: bv, Bound: -1, Shrink: true}, c11Cfg{T: "int16", C: 1, L: 3, K: 4, G: 2, M: 2, ByValue: bv, Bound: 2, Shrink: true})
	}
	// pools whose buffers are born full, put back as shorter windows from frame 0
	r = append(r, c11Cfg{T: "int8", C: 2, L: 2, K: 2, G: 2, M: 2, Bound: 1, Shrink: true}, c11Cfg{T: "float64", C: 1, L: 3, K: 3, G: 2, M: 1, ByValue: true, Bound: 2, Shrink: true})
	// buffers put back through another copy of the allocator value than the one they came from
	r = append(r, c11Cfg{T: "int16", C: 2, L: 1, K: 2, G: 2, M: 2, ByValue: true, Bound: 1, Cross: true}, c11Cfg{T: "int8", C: 1, L: 0, K: 2, G: 3, M: 1, ByValue: true, Warm: true, Bound: 1, Cross: true})
	// a pool whose allocator has no channels (and a capacity all the same)
	r = append(r, c11Cfg{T: "int8", C: 0, L: 0, K: 3, G: 2, M: 1, Bound: 1})
	// two buffers of the pool held at a time, one appended to the other
	r = append(r, c11Cfg{T: "int8", C: 1, L: 0, K: 2, G: 2, M: 2, Bound: 1, Pair: true}, c11Cfg{T: "float64", C: 2, L: 0, K: 3, G: 2, M: 1, ByValue: true, Bound: 1, Pair: true})
	// only a window of each buffer is kept, with a garbage collection while it is held
	for _, bv := range []bool{false, true} {
		r = append(r, c11Cfg{T: "int16", C: 2, L: 1, K: 2, G: 2, M: 2, ByValue: bv, Bound: 1, Window: true}, c11Cfg{T: "float64", C: 1, L: 0, K: 600, G: 2, M: 1, ByValue: bv, Bound: 2, Window: true})
	}
	add(2, 2, -1, 0)
	add(3, 1, -1, 0)
	if tier == "thorough" {
		addBig(3, 1, 2, 1)
		add(3, 2, -1, 0)
		add(4, 1, -1, 0)
		add(4, 2, 2, 1)
		add(5, 1, 2, 1)
		add(6, 1, 1, 1)
	} else {
		add(3, 2, 2, 1)
		add(4, 1, 2, 1)
	}
	return r
}

// c11RunCase replays one recorded schedule in this process.
func c11RunCase(cs c11Case) (fs []F) {
	old := runtime.GOMAXPROCS(1)
	defer runtime.GOMAXPROCS(old)
	vs.SetGlobal(poolctl.Sched{})
	va.SetHook(func(op string) { schedx.Point(op) })
	vs.SetFakeProcs(4, 16) // what the library is told about the machine (the real GOMAXPROCS is 1 here)
	defer func() { vs.SetGlobal(nil); va.SetHook(nil); vs.SetFakeProcs(0, 0) }()
	e := c11Explorer(cs.Cfg)
	e.Prune = false
	before := core.RaceErrors()
	x, err := e.Run(cs.Choices)
	if err != nil {
		return []F{core.Failf("internal/replay-diverged", "%v", err)}
	}
	for _, m := range x.Failures {
		fs = append(fs, core.Failf(c11Key(m), "%+v schedule %v: %s", cs.Cfg, cs.Choices, m))
	}
	if n := core.RaceErrors(); n > before {
		fs = append(fs, core.Failf("Pool/data-race", "%+v schedule %v: the race detector reported %d data race(s) on this schedule (see the worker's stderr file)", cs.Cfg, cs.Choices, n-before))
	}
	return
}

func c11Key(msg string) string {
	switch {
	case contains(msg, "still holds"):
		return "Pool/same-buffer-held-twice"
	case contains(msg, "shape"):
		return "Pool/fresh-shape"
	case contains(msg, "not zero"):
		return "Pool/fresh-nonzero"
	case contains(msg, "storage shared"):
		return "Pool/overlapping-storage"
	case contains(msg, "deadlock"), contains(msg, "warm-up"):
		return "Pool/deadlock"
	case contains(msg, "panicked"):
		return "Pool/panic"
	}
	return "Pool/other"
}

func contains(s, sub string) bool {
	for i := 0; i+len(sub) <= len(s); i++ {
		if s[i:i+len(sub)] == sub {
			return true
		}
	}
	return false
}

// c11Explore runs all configurations of a mode in this process.
func c11Explore(c *core.Ctx, cfgs []c11Cfg, race bool, onFail func(cs c11Case, fs []F)) (execs, trans, states int64, report []map[string]any, capped bool) {
	old := runtime.GOMAXPROCS(1)
	defer runtime.GOMAXPROCS(old)
	vs.SetGlobal(poolctl.Sched{})
	va.SetHook(func(op string) { schedx.Point(op) }) // every atomic operation of the library is a scheduling point
	vs.SetFakeProcs(4, 16)                           // what the library is told about the machine (the real GOMAXPROCS is 1 here)
	defer func() { vs.SetGlobal(nil); va.SetHook(nil); vs.SetFakeProcs(0, 0) }()
	baseGoroutines := runtime.NumGoroutine()
	for _, cfg := range cfgs {
		start := time.Now()
		if c.Expired() {
			capped = true
			break
		}
		e := c11Explorer(cfg)
		e.Stop = c.Expired
		nfail := 0
		raceBefore := core.RaceErrors()
		outcomes := map[string]int64{}
		poolctl.GetsFromPool, poolctl.GetsNew = 0, 0
		var sample []string
		e.OnExec = func(x *schedx.Execution) {
			if e.Executions == 3 && !x.Truncated {
				sample = x.Describe()
			}
			var fs []F
			for _, m := range x.Failures {
				fs = append(fs, core.Failf(c11Key(m), "%+v schedule %v: %s", cfg, x.Choices, m))
			}
			if n := core.RaceErrors(); n > raceBefore {
				fs = append(fs, core.Failf("Pool/data-race", "%+v schedule %v: the race detector reported a data race on this schedule", cfg, x.Choices))
				raceBefore = n
			}
			out := "ok"
			if len(fs) > 0 {
				out = fs[0].Key
			}
			if x.Truncated {
				out = "pruned(visited state)"
			}
			outcomes[out]++
			if len(fs) > 0 && nfail < 5 {
				nfail++
				onFail(c11Case{Cfg: cfg, Choices: append([]int{}, x.Choices...), Race: race}, fs)
			}
		}
		if err := e.Explore(); err != nil {
			c.InternalError("C11 %+v: %v", cfg, err)
		}
		// goroutines the library may have started can outlive an execution: give them a moment and look
		// at the race monitor once more
		if race && runtime.NumGoroutine() > baseGoroutines {
			time.Sleep(30 * time.Millisecond)
			runtime.Gosched()
			if n := core.RaceErrors(); n > raceBefore {
				raceBefore = n
				outcomes["Pool/data-race"]++
				onFail(c11Case{Cfg: cfg, Choices: nil, Race: true}, []F{core.Failf("Pool/data-race", "%+v: the race detector reported a data race involving a goroutine that outlived the explored executions (started by the library itself)", cfg)})
			}
		}
		execs += e.Executions
		trans += e.Transitions
		states += int64(len(e.States))
		if e.Capped {
			capped = true
		}
		report = append(report, map[string]any{"config": fmt.Sprintf("%+v", cfg), "race_monitor": race, "executions": e.Executions, "scheduling_and_env_choices": e.Transitions,
			"distinct_states": len(e.States), "pruned_at_visited_state": e.Pruned, "max_points": e.MaxPoints, "max_threads_incl_goroutines_started_by_the_library": e.MaxThreads, "outcomes": outcomes,
			"gets_served_from_pool": poolctl.GetsFromPool, "gets_served_by_new": poolctl.GetsNew, "completed": !e.Capped, "wall_s": time.Since(start).Seconds(), "sample_schedule": sample})
	}
	return
}

func init() {
	core.Register(&core.Prop{
		ID: "C11", Level: "model_checking", Design: "§5 C11",
		Run: func(c *core.Ctx) {
			// every configuration is explored in its own single-threaded sub-process (the
			// controller of the sync shim is process-wide); the race-monitor ones in the -race binary
			var jobs []core.WorkerJob
			for _, race := range []bool{false, true} {
				for _, cfg := range c11Configs(c.Tier, race) {
					arg, _ := json.Marshal(map[string]any{"cfg": cfg, "race": race})
					bin := "mc-shim"
					if race {
						bin = "mc-race"
					}
					jobs = append(jobs, core.WorkerJob{Binary: bin, ID: "C11", Arg: "cfg:" + string(arg), Env: []string{"VERIF_TIER=" + c.Tier, "GORACE=halt_on_error=0", fmt.Sprintf("VERIF_BUDGET_S=%d", int(time.Until(c.Deadline).Seconds()))}})
				}
			}
			var execs, trans, states, raceExecs int64
			var report []map[string]any
			var stderrAll string
			for i, out := range core.RunWorkers(jobs) {
				if out.Err != nil {
					c.InternalError("worker %s: %v", jobs[i].Arg, out.Err)
					continue
				}
				res := out.Res
				stderrAll += out.Stderr
				for _, fb := range res.Fallbacks {
					c.Note("worker %s: %s", jobs[i].Arg, fb)
					c.Set("library_goroutines_outside_the_explorer", true)
				}
				if jobs[i].Binary == "mc-race" {
					if !res.CanaryOK {
						c.InternalError("race monitor canary failed: %s", res.Error)
					}
					raceExecs += res.Executions
				}
				for _, v := range res.Violations {
					c.Fail(v.Case, v.Failure)
				}
				execs += res.Executions
				trans += res.Transitions
				states += res.States
				report = append(report, res.Configs...)
				if res.Capped {
					c.MarkCapped()
				}
			}
			os.WriteFile(filepath.Join(core.BuildDir(), "C11-race-stderr.txt"), []byte(stderrAll), 0o644)
			if n := core.SaveRaceReports("C11", stderrAll); n > 0 {
				c.Note("%d race detector report(s) saved to %s", n, filepath.Join(core.Root, "replays", "C11-race-reports.txt"))
			}
			c.Set("race_monitor_executions", raceExecs)
			c.Set("library_go_statements_as_explorer_threads", core.GoMode())
			if !c.Quick() {
				// supplement, not the deciding step: free-running on the real sync.Pool under -race
				res, se, err := core.RunWorker("mc-plain-race", "C11FREE", "--worker", "freerun", "GORACE=halt_on_error=0")
				if err != nil {
					c.InternalError("free-running supplement: %v", err)
				} else {
					for _, v := range res.Violations {
						c.Fail(v.Case, v.Failure)
					}
					core.SaveRaceReports("C11-freerun", se)
					c.Set("supplement_free_running_real_sync_pool", map[string]any{"runs": res.Executions, "goroutines": 64, "cycles_each": 200, "gomaxprocs": []int{1, 4, 16}, "violations": len(res.Violations), "note": "sampling-style supplement, not the deciding step; failures of this pass are not replayable schedules"})
				}
			}
			c.Set("states", states)
			c.Set("transitions", trans)
			c.Set("traces_validated_against_impl", execs)
			c.Set("evaluations", execs)
			c.Set("distinct_nontrivial", states)
			c.Set("configs", report)
			for _, r := range report {
				if s, ok := r["sample_schedule"].([]any); ok && len(s) > 0 && c.WantSample() {
					c.Sample(map[string]any{"config": r["config"], "one_explored_schedule": s})
				}
			}
			c.Sample(map[string]any{"cfg": c11Cfg{T: "int8", C: 1, K: 2, G: 2, M: 1, Bound: -1}, "note": "choice lists are replayable: see replay files"})
			c.Set("rule", "G goroutines x M cycles of Get / check fresh / stamp first half / stamp second half / verify stamps / Put on one PoolAllocator (shared by pointer, and as per-goroutine copies of the value); scheduling points between all steps and before/after the pool operations inside Get and Put; every Get also branches over the pool's answers (any pooled item, or New = item dropped by GC); (2,1),(2,2),(3,1) with all interleavings (state-key pruning), larger ones within a preemption bound; the race-monitor pass repeats a bounded exploration in the -race build driven by the detector-invisible baton; states = distinct global states (non-race pass)")
			c.Assume("threads interleave at scheduling points only; conflicting accesses between points are the race monitor's job (Go race detector, happens-before on each explored schedule)", "the sync.Pool shim gives exactly the documented guarantee Put(x) happens-before the Get returning x", "GOMAXPROCS is 1 by construction: for race-free programs parallel executions are equivalent to interleavings (DRF-SC)")
		},
		RunCase: func(c *core.Ctx, raw json.RawMessage) []F {
			cs := decode[c11Case](raw)
			if cs.Race && !core.RaceEnabled {
				// replay in the -race binary
				res, _, err := core.RunWorker("mc-race", "C11", "--worker", "replay:"+string(raw), "GORACE=halt_on_error=0")
				if err != nil {
					return []F{core.Failf("internal/race-replay", "%v", err)}
				}
				var fs []F
				for _, v := range res.Violations {
					fs = append(fs, v.Failure)
				}
				return fs
			}
			return c11RunCase(cs)
		},
		Worker: func(c *core.Ctx, arg string) int {
			res := &core.WorkerResult{}
			if len(arg) > 7 && arg[:7] == "replay:" {
				cs := decode[c11Case](json.RawMessage(arg[7:]))
				for _, f := range c11RunCase(cs) {
					res.Violations = append(res.Violations, core.WorkerViolation{Case: json.RawMessage(arg[7:]), Failure: f})
				}
				res.CanaryOK = true
				core.EmitWorkerResult(res)
				return 0
			}
			var job struct {
				Cfg  c11Cfg `json:"cfg"`
				Race bool   `json:"race"`
			}
			if err := json.Unmarshal([]byte(arg[4:]), &job); err != nil {
				res.Error = err.Error()
				core.EmitWorkerResult(res)
				return 2
			}
			res.CanaryOK = true
			if job.Race {
				if err := raceCanary(); err != nil {
					res.CanaryOK = false
					res.Error = err.Error()
					core.EmitWorkerResult(res)
					return 0
				}
			}
			ex, tr, st, rep, capped := c11Explore(c, []c11Cfg{job.Cfg}, job.Race, func(cs c11Case, fs []F) {
				raw, _ := json.Marshal(cs)
				for _, f := range fs {
					res.Violations = append(res.Violations, core.WorkerViolation{Case: raw, Failure: f})
				}
			})
			res.Executions, res.Transitions, res.States, res.Configs, res.Capped = ex, tr, st, rep, capped
			core.EmitWorkerResult(res)
			return 0
		},
	})
}
