//go:build verif

// Package verifsync is a drop-in replacement for the parts of package sync that
// pipelined.dev/signal uses.  It is injected by `go build -overlay` (see
// /verif/mc/overlaytool): the import "sync" of every non-test file of /repo is
// rewritten to this package, and this file is mapped to /repo/verifsync/vsync.go.
// /repo is never modified on disk.
//
// Pool has the surface of sync.Pool.  When a Controller is attached (either the
// process-wide Global one, used by the schedule explorer, or one bound to the calling
// goroutine, used by the parallel sequence explorer) every Get and Put is delegated to it,
// so that which item a Get returns is a choice of the explorer; otherwise the calls pass
// through to a real sync.Pool.
//
// Mutex / RWMutex are controlled in the same way so that a tree that adds a lock cannot
// hang the cooperative scheduler; without a controller they are the real thing.
package verifsync

import (
	"fmt"
	"runtime"
	"runtime/debug"
	"sync"
	"sync/atomic"
	"syscall"
)

type (
	Map    = sync.Map
	Cond   = sync.Cond
	Locker = sync.Locker
)

func NewCond(l Locker) *Cond { return sync.NewCond(l) }

// Once mirrors sync.Once on top of the controlled Mutex: a thread that arrives while another is
// inside Do(f) (f may contain scheduling points) is disabled in the scheduler instead of
// blocking for real while it holds the baton.  Same algorithm as the real one, hence the same
// happens-before edges for the race detector.
type Once struct {
	done atomic.Uint32
	m    Mutex
}

func (o *Once) Do(f func()) {
	if o.done.Load() == 0 {
		o.doSlow(f)
	}
}

func (o *Once) doSlow(f func()) {
	o.m.Lock()
	defer o.m.Unlock()
	if o.done.Load() == 0 {
		defer o.done.Store(1)
		f()
	}
}

// OnceFunc, OnceValue and OnceValues as in package sync (a panic of f is re-raised on every call).
func OnceFunc(f func()) func() {
	var (
		once  Once
		valid bool
		p     any
	)
	g := func() {
		defer func() {
			p = recover()
			if !valid {
				panic(p)
			}
		}()
		f()
		f = nil
		valid = true
	}
	return func() {
		once.Do(g)
		if !valid {
			panic(p)
		}
	}
}

func OnceValue[T any](f func() T) func() T {
	var (
		once   Once
		valid  bool
		p      any
		result T
	)
	g := func() {
		defer func() {
			p = recover()
			if !valid {
				panic(p)
			}
		}()
		result = f()
		f = nil
		valid = true
	}
	return func() T {
		once.Do(g)
		if !valid {
			panic(p)
		}
		return result
	}
}

func OnceValues[T1, T2 any](f func() (T1, T2)) func() (T1, T2) {
	var (
		once  Once
		valid bool
		p     any
		r1    T1
		r2    T2
	)
	g := func() {
		defer func() {
			p = recover()
			if !valid {
				panic(p)
			}
		}()
		r1, r2 = f()
		f = nil
		valid = true
	}
	return func() (T1, T2) {
		once.Do(g)
		if !valid {
			panic(p)
		}
		return r1, r2
	}
}

// Controller decides the answers of the environment.
type Controller interface {
	// PoolGet returns (item, true, true) to hand out a pooled item or (nil, false, true) to make
	// the pool call New (or return nil when New is nil).  handled=false: the caller is not one
	// of the controller's goroutines (a finalizer, a goroutine started by the library); the real
	// primitive is used.
	PoolGet(p *Pool) (x any, ok bool, handled bool)
	PoolPut(p *Pool, x any) (handled bool)
	// Lock blocks (in the scheduler's sense) until the lock is free.
	Lock(m *Mutex) (handled bool)
	Unlock(m *Mutex) (handled bool)
	// Spawn runs fn as a thread of the explorer (a go statement of the library, rewritten by the
	// overlay to one of the Go0..Go6 functions below).
	Spawn(fn func()) (handled bool)
	// Point is a scheduling point.
	Point(label string) (handled bool)
	// WaitZero blocks (in the scheduler's sense) until *word is zero.
	WaitZero(word *int32, label string) (handled bool)
}

// Global, when non-nil, controls every Pool and Mutex of the process.
var Global Controller

var (
	bound  sync.Map // OS thread id of a goroutine locked to its thread -> Controller
	nBound atomic.Int64
)

// Bind attaches c to the calling goroutine until Unbind.  The goroutine is locked to its
// OS thread meanwhile, so that the thread id identifies it (a cheap goroutine-local).
func Bind(c Controller) {
	runtime.LockOSThread()
	bound.Store(syscall.Gettid(), c)
	nBound.Add(1)
}

// Unbind detaches the calling goroutine's controller.
func Unbind() {
	bound.Delete(syscall.Gettid())
	nBound.Add(-1)
	runtime.UnlockOSThread()
}

// Passthrough, when bound, makes the calling goroutine use the real sync primitives.
// A goroutine that uses pools while other goroutines have controllers bound must itself be
// bound (to a controller or to Passthrough): the thread id of an unlocked goroutine is stale
// by the time it is looked up.
var Passthrough Controller = passthrough{}

type passthrough struct{}

func (passthrough) PoolGet(p *Pool) (any, bool, bool) { return nil, false, false }
func (passthrough) PoolPut(p *Pool, x any) bool       { return false }
func (passthrough) Lock(m *Mutex) bool                { return false }
func (passthrough) Unlock(m *Mutex) bool              { return false }
func (passthrough) Spawn(fn func()) bool              { return false }
func (passthrough) Point(label string) bool           { return false }
func (passthrough) WaitZero(w *int32, l string) bool  { return false }

// global reads Global without the race detector looking: the harness sets it before its
// threads start and clears it after they are done, but goroutines of the library that outlive
// an execution may still consult it, and that is not a race of the code under test.
//
//go:norace
//go:noinline
func global() Controller { return Global }

// SetGlobal sets Global (see global).
//
//go:norace
//go:noinline
func SetGlobal(c Controller) { Global = c }

func current() Controller {
	if g := global(); g != nil {
		return g
	}
	if nBound.Load() == 0 {
		return nil
	}
	if c, ok := bound.Load(syscall.Gettid()); ok {
		if c == Passthrough {
			return nil
		}
		return c.(Controller)
	}
	return nil
}

// Pool mirrors sync.Pool.
type Pool struct {
	New func() any

	once sync.Once
	real sync.Pool
}

func (p *Pool) Get() any {
	if c := current(); c != nil {
		if x, ok, handled := c.PoolGet(p); handled {
			if ok {
				return x
			}
			if p.New != nil {
				return p.New()
			}
			return nil
		}
	}
	p.once.Do(func() { p.real.New = p.New })
	return p.real.Get()
}

func (p *Pool) Put(x any) {
	if x == nil {
		return
	}
	if c := current(); c != nil && c.PoolPut(p, x) {
		return
	}
	p.once.Do(func() { p.real.New = p.New })
	p.real.Put(x)
}

// Mutex mirrors sync.Mutex.
type Mutex struct {
	real sync.Mutex
	// Held is owned by the controller.
	Held int32
}

func (m *Mutex) Lock() {
	if c := current(); c != nil && c.Lock(m) {
		m.real.Lock() // never blocks: the controller granted exclusivity; keeps the race detector's happens-before edges
		return
	}
	m.real.Lock()
}

func (m *Mutex) TryLock() bool {
	return m.real.TryLock()
}

func (m *Mutex) Unlock() {
	m.real.Unlock()
	if c := current(); c != nil {
		c.Unlock(m)
	}
}

// RWMutex is modelled as an exclusive lock under a controller (a sound restriction of
// the schedules a reader/writer lock admits: every exclusive schedule is also a
// reader/writer schedule).
type RWMutex struct {
	m Mutex
}

func (rw *RWMutex) Lock()          { rw.m.Lock() }
func (rw *RWMutex) Unlock()        { rw.m.Unlock() }
func (rw *RWMutex) RLock()         { rw.m.Lock() }
func (rw *RWMutex) RUnlock()       { rw.m.Unlock() }
func (rw *RWMutex) TryLock() bool  { return rw.m.TryLock() }
func (rw *RWMutex) TryRLock() bool { return rw.m.TryLock() }
func (rw *RWMutex) RLocker() Locker {
	return (*rlocker)(rw)
}

type rlocker RWMutex

func (r *rlocker) Lock()   { (*RWMutex)(r).RLock() }
func (r *rlocker) Unlock() { (*RWMutex)(r).RUnlock() }

// WaitGroup mirrors sync.WaitGroup.  The real one is always kept up to date (it carries the
// happens-before edges the race detector sees); N shadows its counter for the scheduler,
// with N >= the real counter at all times, so that N == 0 means the real Wait cannot block.
type WaitGroup struct {
	real sync.WaitGroup
	N    int32
}

func (wg *WaitGroup) Add(delta int) {
	if c := current(); c != nil {
		c.Point("WaitGroup.Add")
	}
	if delta > 0 {
		atomic.AddInt32(&wg.N, int32(delta))
		wg.real.Add(delta)
		return
	}
	wg.real.Add(delta) // panics on a negative counter, as the real one does
	atomic.AddInt32(&wg.N, int32(delta))
}

func (wg *WaitGroup) Done() { wg.Add(-1) }

func (wg *WaitGroup) Wait() {
	if c := current(); c != nil {
		c.WaitZero(&wg.N, "WaitGroup.Wait")
	}
	wg.real.Wait()
}

// Foreign counts the goroutines of the library that run outside the explorer.
var Foreign atomic.Int64

func spawn(fn func()) {
	c := current()
	if c != nil && c.Spawn(fn) {
		return
	}
	if c == nil {
		go func() {
			defer goroutinePanic()
			fn()
		}()
		return
	}
	Foreign.Add(1)
	go func() {
		defer Foreign.Add(-1)
		defer goroutinePanic()
		fn()
	}()
}

// OnGoroutinePanic, when set, is told about a panic in a goroutine that the library started itself and
// that runs outside any explorer (such a panic would otherwise end the whole check process without a
// verdict).  When it is not set the panic goes on.
var OnGoroutinePanic func(msg, stack string)

func goroutinePanic() {
	if r := recover(); r != nil {
		h := OnGoroutinePanic
		if h == nil {
			panic(r)
		}
		h(fmt.Sprint(r), string(debug.Stack()))
	}
}

// Go0..Go6 replace the go statements of the library: `go f(a, b)` becomes Go2(f, a, b), which
// evaluates f, a and b in the calling goroutine exactly as the go statement does.
func Go0(f func()) { spawn(f) }

func Go1[A any](f func(A), a A) { spawn(func() { f(a) }) }

func Go2[A, B any](f func(A, B), a A, b B) { spawn(func() { f(a, b) }) }

func Go3[A, B, C any](f func(A, B, C), a A, b B, c C) { spawn(func() { f(a, b, c) }) }

func Go4[A, B, C, D any](f func(A, B, C, D), a A, b B, c C, d D) { spawn(func() { f(a, b, c, d) }) }

func Go5[A, B, C, D, E any](f func(A, B, C, D, E), a A, b B, c C, d D, e E) {
	spawn(func() { f(a, b, c, d, e) })
}

func Go6[A, B, C, D, E, F any](f func(A, B, C, D, E, F), a A, b B, c C, d D, e E, g F) {
	spawn(func() { f(a, b, c, d, e, g) })
}

// FakeProcs / FakeCPUs, when non-zero, are what the library is told by runtime.GOMAXPROCS(0) and
// runtime.NumCPU() (the overlay redirects those two calls here).
var FakeProcs, FakeCPUs int

//go:norace
//go:noinline
func fakes() (int, int) { return FakeProcs, FakeCPUs }

// SetFakeProcs sets both (0: tell the truth).
//
//go:norace
//go:noinline
func SetFakeProcs(procs, cpus int) { FakeProcs, FakeCPUs = procs, cpus }

func GOMAXPROCS(n int) int {
	if p, _ := fakes(); p > 0 && n <= 0 {
		return p
	}
	return runtime.GOMAXPROCS(n)
}

func NumCPU() int {
	if _, c := fakes(); c > 0 {
		return c
	}
	return runtime.NumCPU()
}
