package props

import (
	"encoding/json"
	"fmt"
	"math"

	"verif/mc/core"
	"verif/mc/dyn"
)

// C01 — written samples are read back unchanged in frame-interleaved layout.

type c01Case struct {
	Kind       string // write | wstriped | read | rstriped | valrw (special values by bit pattern, valpass.go: only S, D, C matter)
	S, D       string // element type of the slice(s) / of the buffer (write*), of the buffer / of the slice(s) (read*)
	C, P, X, L int    // root of P frames, window [X, X+L)
	R          int    // extra samples appended to the window (partly filled last frame)
	Lens       []int  // slice lengths: one entry (interleaved) or one per channel; -1 = nil slice
	Fam        int    // value family: 0 = distinct small tokens, 1 = extremes of the range common to both types
}

// exact integer value of a Val (floats are integral here)
func valInt(v dyn.Val) (neg bool, mag uint64) {
	switch v.K {
	case dyn.Signed:
		i := int64(v.B)
		if i < 0 {
			return true, uint64(-i)
		}
		return false, uint64(i)
	case dyn.Unsigned:
		return false, v.B
	default:
		f := v.Float()
		if f < 0 {
			return true, uint64(-f)
		}
		return false, uint64(f)
	}
}

func sameInt(a, b dyn.Val) bool {
	an, am := valInt(a)
	bn, bm := valInt(b)
	if am == 0 && bm == 0 {
		return true
	}
	return an == bn && am == bm
}

// intRange returns the integers exactly representable in type t as (minNegMagnitude, maxPos).
func intRange(t int) (negMag, pos uint64) {
	ty := dyn.Types[t]
	switch ty.Kind {
	case dyn.Signed:
		return uint64(1) << uint(ty.Bits-1), uint64(1)<<uint(ty.Bits-1) - 1
	case dyn.Unsigned:
		if ty.Bits == 64 {
			return 0, math.MaxUint64
		}
		return 0, uint64(1)<<uint(ty.Bits) - 1
	default:
		if ty.Bits == 32 {
			return 1 << 24, 1 << 24
		}
		return 1 << 53, 1 << 53
	}
}

// mkVal makes the integer (neg, mag) as a Val of type t's kind.
func mkVal(t int, neg bool, mag uint64) dyn.Val {
	switch dyn.Types[t].Kind {
	case dyn.Signed:
		if neg {
			return dyn.I(-int64(mag-1) - 1)
		}
		return dyn.I(int64(mag))
	case dyn.Unsigned:
		return dyn.U(mag)
	default:
		f := float64(mag)
		if neg {
			f = -f
		}
		return dyn.F(f)
	}
}

// family returns value k of family fam for the pair (s, d), as a Val of type s.
func family(fam, s, d, k int) dyn.Val {
	if fam == 0 {
		return dyn.Tok(s, int64(20+k%100))
	}
	sn, sp := intRange(s)
	dn, dp := intRange(d)
	nm, pm := sn, sp
	if dn < nm {
		nm = dn
	}
	if dp < pm {
		pm = dp
	}
	switch k % 5 {
	case 0:
		return mkVal(s, nm > 0, nm)
	case 1:
		return mkVal(s, false, pm)
	case 2:
		if nm > 0 {
			return mkVal(s, true, nm-1)
		}
		return mkVal(s, false, 1)
	case 3:
		return mkVal(s, false, pm-1)
	}
	return mkVal(s, false, 0)
}

func c01Desc(cs c01Case) string {
	return fmt.Sprintf("%s S=%s D=%s C=%d root %d frames window [%d,%d)+%d samples lens=%v fam=%d", cs.Kind, cs.S, cs.D, cs.C, cs.P, cs.X, cs.X+cs.L, cs.R, cs.Lens, cs.Fam)
}

func c01Run(cs c01Case) []F {
	return core.Guard("layout", func() []F { return c01RunRaw(cs) })
}

func c01RunRaw(cs c01Case) (fs []F) {
	if cs.Kind == "chanlen" {
		if g, w := dyn.ChannelLength(cs.L, cs.C), (cs.L+cs.C-1)/cs.C; g != w {
			fs = append(fs, core.Failf("ChannelLength/return", "ChannelLength(%d, %d) = %d, want %d", cs.L, cs.C, g, w))
		}
		return
	}
	if cs.Kind == "valrw" {
		return valReadWrite(typeByName(cs.S), typeByName(cs.D), cs.C)
	}
	fail := func(kind, format string, a ...any) {
		fn := map[string]string{"write": "Write", "wstriped": "WriteStriped", "read": "Read", "rstriped": "ReadStriped"}[cs.Kind]
		fs = append(fs, core.Failf(fn+"/"+kind, "%s: %s", c01Desc(cs), fmt.Sprintf(format, a...)))
	}
	st, dt := typeByName(cs.S), typeByName(cs.D)
	bt := dt // buffer element type
	if cs.Kind == "read" || cs.Kind == "rstriped" {
		bt = st
	}
	C := cs.C
	dyn.TakeCallerDamage()
	defer func() {
		// the caller's own slices: the outer slice's elements and what lies behind each inner slice's length
		if d := dyn.TakeCallerDamage(); d != "" {
			fail("caller-slices", "%s", d)
		}
	}()
	root := dyn.Alloc(bt, al(C, cs.P, cs.P))
	win := root.Slice(cs.X, cs.X+cs.L)
	if cs.X == 0 && cs.L == cs.P && cs.R == 0 && (C+cs.P+cs.X)%2 == 1 {
		win = root // the allocated header itself is the buffer under test; its storage is filled through a window below
	}
	_ = hdr(win) // (shape queries between the steps: they are pure, whatever the header remembers)
	for i := 0; i < cs.R; i++ {
		win.AppendSample(dyn.Tok(bt, 0))
		_ = hdr(win)
	}
	off, n := C*cs.X, C*cs.L+cs.R
	// model storage: exact Vals
	cells := make([]dyn.Val, C*cs.P)
	// (the storage is filled through the root itself or, every other shape, only through a window over
	// its whole capacity: whatever a header remembers about its own writes, the storage is what counts)
	filler := root
	if (C+cs.P+cs.X)%2 == 1 {
		filler = root.Slice(0, cs.P)
	}
	for i := range cells {
		if cs.Kind == "read" || cs.Kind == "rstriped" {
			cells[i] = family(cs.Fam, st, dt, i) // values representable in both
		} else {
			cells[i] = dyn.Tok(bt, int64(1+i%19))
		}
		filler.SetSample(i, cells[i])
	}
	h0 := hdr(win)
	hr0 := hdr(root)
	// the window as built must have the shape the model says (Slice, then R single-sample appends, with
	// shape queries in between)
	if want := (header{C, dyn.Types[bt].Bits, n, C * (cs.P - cs.X), ceilDiv(n, C), cs.P - cs.X}); h0 != want {
		fail("shape", "the buffer under test has shape %+v after Slice(%d,%d) and %d AppendSample calls, want %+v", h0, cs.X, cs.X+cs.L, cs.R, want)
		return
	}
	checkStore := func(when string) bool {
		for i, w := range cells {
			if g := root.Sample(i); !sameInt(g, w) {
				fail("storage", "%s: storage position %d (window position %d) holds %v, want %v", when, i, i-off, g, w)
				return false
			}
		}
		if h := hdr(win); h != h0 {
			fail("shape", "%s: buffer shape changed from %+v to %+v", when, h0, h)
			return false
		}
		if h := hdr(root); h != hr0 {
			fail("shape", "%s: parent shape changed", when)
			return false
		}
		return true
	}
	mkSl := func(t, l int) dyn.Sl {
		if l < 0 {
			return dyn.NilSl(t)
		}
		return dyn.NewSl(t, l)
	}
	switch cs.Kind {
	case "write":
		src := mkSl(st, cs.Lens[0])
		for i := 0; i < src.Len(); i++ {
			src.Set(i, family(cs.Fam, st, dt, i))
		}
		var ret int
		if p, msg := dyn.Try(func() { ret = dyn.Write(src, win) }); p {
			fail("panic", "panicked: %s", msg)
			return
		}
		m := n
		if src.Len() < m {
			m = src.Len()
		}
		for i := 0; i < m; i++ {
			cells[off+i] = family(cs.Fam, st, dt, i)
		}
		if ret != ceilDiv(m, C) {
			fail("return", "returned %d, want %d frames (%d samples covered)", ret, ceilDiv(m, C), m)
		}
		for i := 0; i < src.Len(); i++ {
			if !sameInt(src.Get(i), family(cs.Fam, st, dt, i)) {
				fail("input-changed", "input slice element %d changed", i)
				break
			}
		}
		if !checkStore("after Write") {
			return
		}
		// read back with both readers
		back := dyn.NewSl(st, n)
		if p, msg := dyn.Try(func() { dyn.Read(win, back) }); p {
			fail("roundtrip", "Read back panicked: %s", msg)
			return
		}
		for i := 0; i < m; i++ {
			if !sameInt(back.Get(i), family(cs.Fam, st, dt, i)) {
				fail("roundtrip", "Write then Read: position %d gives %v, wrote %v", i, back.Get(i), family(cs.Fam, st, dt, i))
				return
			}
		}
		if cs.R == 0 {
			outs := make([]dyn.Sl, C)
			for c := range outs {
				outs[c] = dyn.NewSl(st, cs.L)
			}
			if p, msg := dyn.Try(func() { dyn.ReadStriped(win, st, outs, false) }); p {
				fail("roundtrip", "ReadStriped back panicked: %s", msg)
				return
			}
			for i := 0; i < m; i++ {
				if g := outs[i%C].Get(i / C); !sameInt(g, family(cs.Fam, st, dt, i)) {
					fail("roundtrip", "Write then ReadStriped: sample %d of channel %d gives %v, wrote %v", i/C, i%C, g, family(cs.Fam, st, dt, i))
					return
				}
			}
		}
	case "wstriped":
		src := make([]dyn.Sl, C)
		longest := 0
		val := func(c, i int) dyn.Val { return family(cs.Fam, st, dt, c*7+i) }
		for c := 0; c < C; c++ {
			src[c] = mkSl(st, cs.Lens[c])
			if src[c].Len() > longest {
				longest = src[c].Len()
			}
			for i := 0; i < src[c].Len(); i++ {
				src[c].Set(i, val(c, i))
			}
		}
		var ret int
		if p, msg := dyn.Try(func() { ret = dyn.WriteStriped(st, src, false, win) }); p {
			fail("panic", "panicked: %s", msg)
			return
		}
		w := cs.L
		if longest < w {
			w = longest
		}
		for c := 0; c < C; c++ {
			for i := 0; i < w; i++ {
				if i < src[c].Len() {
					cells[off+C*i+c] = val(c, i)
				} else {
					cells[off+C*i+c] = dyn.Tok(dt, 0)
				}
			}
		}
		if ret != w {
			fail("return", "returned %d, want %d", ret, w)
		}
		for c := 0; c < C; c++ {
			for i := 0; i < src[c].Len(); i++ {
				if !sameInt(src[c].Get(i), val(c, i)) {
					fail("input-changed", "input slice %d element %d changed", c, i)
				}
			}
		}
		if !checkStore("after WriteStriped") {
			return
		}
		back := dyn.NewSl(st, n)
		outs := make([]dyn.Sl, C)
		for c := range outs {
			outs[c] = dyn.NewSl(st, cs.L)
		}
		if p, msg := dyn.Try(func() { dyn.Read(win, back); dyn.ReadStriped(win, st, outs, false) }); p {
			fail("roundtrip", "reading back panicked: %s", msg)
			return
		}
		for c := 0; c < C; c++ {
			for i := 0; i < w && i < src[c].Len(); i++ {
				if g := back.Get(C*i + c); !sameInt(g, val(c, i)) {
					fail("roundtrip", "WriteStriped then Read: interleaved position %d gives %v, wrote %v as sample %d of channel %d", C*i+c, g, val(c, i), i, c)
					return
				}
				if g := outs[c].Get(i); !sameInt(g, val(c, i)) {
					fail("roundtrip", "WriteStriped then ReadStriped: sample %d of channel %d gives %v, wrote %v", i, c, g, val(c, i))
					return
				}
			}
		}
	case "read":
		dst := mkSl(dt, cs.Lens[0])
		sent := dyn.Tok(dt, 99)
		for i := 0; i < dst.Len(); i++ {
			dst.Set(i, sent)
		}
		var ret int
		if p, msg := dyn.Try(func() { ret = dyn.Read(win, dst) }); p {
			fail("panic", "panicked: %s", msg)
			return
		}
		m := n
		if dst.Len() < m {
			m = dst.Len()
		}
		if ret != ceilDiv(m, C) {
			fail("return", "returned %d, want %d frames (%d samples covered)", ret, ceilDiv(m, C), m)
		}
		for i := 0; i < dst.Len(); i++ {
			want := sent
			if i < m {
				want = cells[off+i]
			}
			if g := dst.Get(i); !sameInt(g, want) {
				fail("output", "output element %d is %v, want %v (covered prefix %d)", i, g, want, m)
				break
			}
		}
		checkStore("after Read")
	case "rstriped":
		dst := make([]dyn.Sl, C)
		sent := dyn.Tok(dt, 99)
		for c := 0; c < C; c++ {
			dst[c] = mkSl(dt, cs.Lens[c])
			for i := 0; i < dst[c].Len(); i++ {
				dst[c].Set(i, sent)
			}
		}
		var ret int
		if p, msg := dyn.Try(func() { ret = dyn.ReadStriped(win, dt, dst, false) }); p {
			fail("panic", "panicked: %s", msg)
			return
		}
		want := 0
		for c := 0; c < C; c++ {
			m := cs.L
			if dst[c].Len() < m {
				m = dst[c].Len()
			}
			if m > want {
				want = m
			}
			for i := 0; i < dst[c].Len(); i++ {
				w := sent
				if i < m {
					w = cells[off+C*i+c]
				}
				if g := dst[c].Get(i); !sameInt(g, w) {
					fail("output", "output slice %d element %d is %v, want %v", c, i, g, w)
					break
				}
			}
		}
		if ret != want {
			fail("return", "returned %d, want %d", ret, want)
		}
		checkStore("after ReadStriped")
	}
	return
}

func init() {
	core.Register(&core.Prop{
		ID: "C01", Level: "exploration", Design: "§5 C01",
		Run: func(c *core.Ctx) {
			maxC, maxP := 4, 4
			if !c.Quick() {
				maxC, maxP = 5, 5
			}
			type shape struct{ C, P, X, L, R int }
			var shapes []shape
			for C := 1; C <= maxC; C++ {
				for P := 0; P <= maxP; P++ {
					for X := 0; X <= P; X++ {
						for L := 0; X+L <= P; L++ {
							shapes = append(shapes, shape{C, P, X, L, 0})
							if X+L < P {
								for r := 1; r < C; r++ {
									shapes = append(shapes, shape{C, P, X, L, r})
								}
							}
						}
					}
				}
			}
			// large shapes, sparsely: size thresholds (fast paths for long buffers) are outside the small scope
			var big []shape
			for C := 1; C <= 3; C++ {
				for _, P := range []int{9, 33, 130, 1025} {
					for _, w := range [][2]int{{0, P}, {1, P - 2}, {P / 2, P / 3}} {
						big = append(big, shape{C, P, w[0], w[1], 0})
						if C > 1 {
							big = append(big, shape{C, P, w[0], w[1] - 1, 1})
						}
					}
				}
			}
			for _, C := range []int{8, 9, 17, 65, 70, 256, 300} { // many channels
				for _, P := range []int{2, 5} {
					big = append(big, shape{C, P, 0, P, 0}, shape{C, P, 1, P - 1, 0}, shape{C, P, 0, P - 1, C - 1})
				}
			}
			type job struct{ s, d int }
			var jobs []job
			for s := 0; s < dyn.NB; s++ {
				for d := 0; d < dyn.NB; d++ {
					jobs = append(jobs, job{s, d})
				}
			}
			for _, p := range dyn.NamedPairs() { // and 104 pairs with a named element type on one side
				jobs = append(jobs, job{p[0], p[1]})
			}
			// very long buffers (paths that tile or parallelise): a few type pairs, 2 and 3 channels, more than
			// 2^21 / 2^22 samples, frame counts that are not round
			type giant struct {
				s, d, C, P int
			}
			giants := []giant{{dyn.Float32, dyn.Float32, 2, 1<<20 + 1000}, {dyn.Int16, dyn.Float64, 2, 1<<20 + 1000}, {dyn.Int8, dyn.Int8, 3, 1400000 + 1},
				{dyn.Int8, dyn.Int8, 1, 1<<24 + 5}, {dyn.Int8, dyn.Int16, 2, 1<<23 + 3}} // more than 2^24 samples
			if !c.Quick() {
				giants = append(giants, giant{dyn.Float64, dyn.Float64, 2, 1<<21 + 77}, giant{dyn.Uint8, dyn.Int32, 3, 1<<21 + 5}, giant{dyn.Int32, dyn.Int32, 1, 1<<22 + 9})
			}
			c.ParallelFor(len(giants), func(gi int) {
				g := giants[gi]
				total := g.C * g.P
				for _, k := range []string{"write", "read", "wstriped", "rstriped"} {
					cs := c01Case{Kind: k, S: tn(g.s), D: tn(g.d), C: g.C, P: g.P, X: 0, L: g.P, Fam: 0}
					if k == "write" || k == "read" {
						cs.Lens = []int{total}
					} else {
						cs.Lens = make([]int, g.C)
						for q := range cs.Lens {
							cs.Lens[q] = g.P - q // uneven
						}
					}
					c.Check(cs, true, c01Run(cs))
				}
				if g.C > 1 { // and a partly filled last frame for the interleaved forms
					for _, k := range []string{"write", "read"} {
						cs := c01Case{Kind: k, S: tn(g.s), D: tn(g.d), C: g.C, P: g.P, X: 0, L: g.P - 1, R: 1, Fam: 0, Lens: []int{total}}
						c.Check(cs, true, c01Run(cs))
					}
				}
			})
			// the process environment: long transfers under GOMAXPROCS 1, 2, 3 and 48 (code that splits work by
			// the number of processors is different code for each)
			envGiants := []giant{{dyn.Int16, dyn.Float64, 2, 70001}, {dyn.Int8, dyn.Int8, 2, 70001}, {dyn.Float32, dyn.Float32, 3, 50001}}
			for _, procs := range envProcs {
				if c.Expired() {
					break
				}
				c.WithProcs(procs, func() {
					c.ParallelFor(len(envGiants), func(gi int) {
						g := envGiants[gi]
						total := g.C * g.P
						for _, k := range []string{"write", "read", "wstriped", "rstriped"} {
							cs := c01Case{Kind: k, S: tn(g.s), D: tn(g.d), C: g.C, P: g.P, X: 0, L: g.P, Fam: 0}
							if k == "write" || k == "read" {
								cs.Lens = []int{total}
							} else {
								cs.Lens = make([]int, g.C)
								for q := range cs.Lens {
									cs.Lens[q] = g.P - q
								}
							}
							c.Check(cs, true, c01Run(cs))
						}
					})
				})
			}
			c.Set("gomaxprocs_values_for_long_transfers", envProcs)
			c.ParallelFor(len(jobs), func(ji int) {
				jb := jobs[ji]
				var n int64
				for _, sh := range big {
					if (dyn.Types[jb.s].Named || dyn.Types[jb.d].Named) && (sh.P > 200 || sh.C > 17) {
						continue
					}
					if sh.P > 200 && c.Quick() && ji%6 != 0 {
						continue // the longest roots for every sixth pair only in the quick tier
					}
					total := sh.C*sh.L + sh.R
					base := c01Case{S: tn(jb.s), D: tn(jb.d), C: sh.C, P: sh.P, X: sh.X, L: sh.L, R: sh.R, Fam: ji % 2}
					for _, l := range []int{0, 1, total / 2, total - 1, total, total + 1, total + 64} {
						for _, k := range []string{"write", "read"} {
							cs := base
							cs.Kind, cs.Lens = k, []int{l}
							n++
							if fs := c01Run(cs); len(fs) > 0 {
								c.Fail(cs, fs...)
							}
						}
					}
					if sh.R != 0 {
						continue
					}
					for _, pat := range [][]int{{sh.L, sh.L, sh.L}, {sh.L + 2, sh.L / 2, -1}, {1, sh.L - 1, sh.L}, {-1, -1, sh.L + 1}} {
						for _, k := range []string{"wstriped", "rstriped"} {
							cs := base
							lens := make([]int, sh.C)
							for q := range lens {
								lens[q] = pat[q%len(pat)]
							}
							cs.Kind, cs.Lens = k, lens
							n++
							if fs := c01Run(cs); len(fs) > 0 {
								c.Fail(cs, fs...)
							}
						}
					}
				}
				c.Eval(n, n)
				c.Add("large_shape_cases", n)
			})
			c.ParallelFor(len(jobs), func(ji int) {
				jb := jobs[ji]
				var n, nt int64
				run := func(cs c01Case, nontrivial bool) {
					n++
					if nontrivial {
						nt++
					}
					if fs := c01Run(cs); len(fs) > 0 {
						c.Fail(cs, fs...)
					}
				}
				named := dyn.Types[jb.s].Named || dyn.Types[jb.d].Named
				for _, sh := range shapes {
					if named && (sh.C > 2 || sh.P > 3) {
						continue // pairs with a named type: a reduced shape set
					}
					total := sh.C*sh.L + sh.R
					for fam := 0; fam <= 1; fam++ {
						base := c01Case{S: tn(jb.s), D: tn(jb.d), C: sh.C, P: sh.P, X: sh.X, L: sh.L, R: sh.R, Fam: fam}
						for l := -1; l <= total+2; l++ {
							w := base
							w.Kind, w.Lens = "write", []int{l}
							run(w, l > 0 && total > 0)
							r := base
							r.Kind, r.Lens = "read", []int{l}
							run(r, l > 0 && total > 0)
						}
						if sh.R != 0 {
							continue // striped forms: frame-aligned buffers
						}
						// every combination of per-channel lengths from {nil, 0, 1, ..., L+1}
						lens := make([]int, sh.C)
						for i := range lens {
							lens[i] = -1
						}
						for {
							any := false
							for _, l := range lens {
								if l > 0 {
									any = true
								}
							}
							ws := base
							ws.Kind, ws.Lens = "wstriped", append([]int{}, lens...)
							run(ws, any && sh.L > 0)
							rs := base
							rs.Kind, rs.Lens = "rstriped", append([]int{}, lens...)
							run(rs, any && sh.L > 0)
							k := 0
							for k < sh.C {
								lens[k]++
								if lens[k] <= sh.L+1 {
									break
								}
								lens[k] = -1
								k++
							}
							if k == sh.C {
								break
							}
						}
					}
				}
				c.Eval(n, nt)
			})
			// special values (both zeros, NaN, infinities, smallest and largest magnitudes, integer bounds) that
			// both element types hold, for every pair of element types of the same kind, by bit pattern
			var vcases []c01Case
			for _, s := range valTypes() {
				for _, d := range valTypes() {
					if dyn.Types[s].Kind != dyn.Types[d].Kind || !dyn.HasIO(s, d) {
						continue
					}
					for C := 1; C <= 2; C++ {
						vcases = append(vcases, c01Case{Kind: "valrw", S: tn(s), D: tn(d), C: C})
					}
				}
			}
			c.ParallelFor(len(vcases), func(i int) { c.Check(vcases[i], true, c01Run(vcases[i])) })
			// the frame count every reader and writer returns: ChannelLength(n, c) = ceil(n/c) for every
			// channel count up to 1100 and every length around every multiple of it up to 70 frames
			c.ParallelFor(1100, func(k int) {
				ch := k + 1
				for f := 0; f <= 70; f++ {
					for _, n := range []int{ch*f - 1, ch * f, ch*f + 1} {
						if n < 0 {
							continue
						}
						if g, w := dyn.ChannelLength(n, ch), (n+ch-1)/ch; g != w {
							c.Fail(c01Case{Kind: "chanlen", C: ch, L: n}, core.Failf("ChannelLength/return", "ChannelLength(%d, %d) = %d, want %d (frames covered, counting a partly covered last one)", n, ch, g, w))
							return
						}
					}
				}
				c.Eval(213, 213)
			})
			c.Set("special_value_cases", len(vcases))
			c.Sample(c01Case{Kind: "wstriped", S: "int8", D: "float32", C: 3, P: 3, X: 1, L: 2, Lens: []int{-1, 3, 1}, Fam: 1})
			c.Sample(c01Case{Kind: "read", S: "uint16", D: "int64", C: 2, P: 3, X: 1, L: 1, R: 1, Lens: []int{5}, Fam: 0})
			c.Set("rule", fmt.Sprintf("all 169 slice/buffer element-type pairs (and 104 pairs with a named type MyInt16/MyUint8/MyFloat32/MyFloat64 on one side) x C in 1..%d x root of P<=%d frames x every frame-aligned window (X,L) x partly filled last frames (interleaved forms) x Write/Read with slice length nil,0..Len+2 and WriteStriped/ReadStriped with every combination of per-channel lengths from {nil,0..L+1} x two value families (distinct tokens; extremes of the integer range exactly representable in both types); after each call the whole parent storage, the shapes, the caller's slices and the return value are compared with the model, and what was written is read back with both readers; non-trivial = at least one sample is transferred; cases distinct by construction; in addition a sparse set of large shapes (roots of 9, 33, 130, 1025 frames, 1-3 channels, and 8, 9, 17, 65, 70, 256, 300 channels on short roots; 3 windows each, input lengths around the buffer length) for all 169 pairs, against size-threshold fast paths, and a few very long buffers (more than 2^21 samples, not round)", maxC, maxP))
			c.Assume("values are integers exactly representable in both element types (the property's domain)", "windows are made with Slice and partly filled frames with AppendSample")
		},
		RunCase: func(c *core.Ctx, raw json.RawMessage) []F { return c01Run(decode[c01Case](raw)) },
	})
}
