package props

import (
	"fmt"
	"math"

	"verif/mc/core"
	"verif/mc/dyn"
)

// Special sample values through the storage operations.  The views model of C01-C04/C12 works on
// small positive tokens; these passes push the values a token never is — both zeros, infinities,
// the smallest and largest magnitudes, the integer bounds — through AppendSample and Append and
// compare BIT PATTERNS, with every such value written over a cell that holds every other one.

func valSpecials(t int) []dyn.Val {
	ty := dyn.Types[t]
	switch ty.Kind {
	case dyn.Float:
		big, tiny := math.MaxFloat64, math.SmallestNonzeroFloat64
		if ty.Bits == 32 {
			big, tiny = math.MaxFloat32, math.SmallestNonzeroFloat32
		}
		return []dyn.Val{dyn.F(0), dyn.F(math.Copysign(0, -1)), dyn.F(1), dyn.F(-1), dyn.F(big), dyn.F(-big), dyn.F(tiny), dyn.F(-tiny), dyn.F(math.Inf(1)), dyn.F(math.Inf(-1)), dyn.F(0.75), dyn.F(math.NaN())}
	case dyn.Signed:
		lo := -int64(1) << uint(ty.Bits-1)
		return []dyn.Val{dyn.I(0), dyn.I(-1), dyn.I(1), dyn.I(lo), dyn.I(-(lo + 1)), dyn.I(lo + 1), dyn.I(0x55 & -(lo + 1))}
	}
	hi := ^uint64(0) >> uint(64-ty.Bits)
	return []dyn.Val{dyn.U(0), dyn.U(1), dyn.U(hi), dyn.U(hi - 1), dyn.U(hi/2 + 1), dyn.U(hi / 2), dyn.U(0x55 & hi)}
}

// valSame compares bit patterns; two NaNs are the same whatever their payload (a float32 element type
// cannot carry the payload of a float64 NaN).
func valSame(a, b dyn.Val) bool {
	if a.K == dyn.Float && b.K == dyn.Float && math.IsNaN(a.Float()) && math.IsNaN(b.Float()) {
		return true
	}
	return a == b
}

// valSetSample: every special value written with SetSample over a cell holding every other one (and
// read back through the buffer and through a window of it).
func valSetSample(t, C int) (fs []F) {
	sp := valSpecials(t)
	n := len(sp)
	b := dyn.Alloc(t, al(C, n, n))
	w := b.Slice(0, n)
	for shift := 0; shift < n; shift++ {
		for i := 0; i < C*n; i++ {
			v := sp[(i+shift)%n]
			if i%2 == 0 {
				b.SetSample(i, v)
			} else {
				w.SetSample(i, v)
			}
			if g := b.Sample(i); !valSame(g, v) {
				return append(fs, core.Failf("SetSample/value", "%s C=%d: SetSample(%d, %v) (bits %#x) over a cell holding %v: the buffer reads %v (bits %#x)", tn(t), C, i, v, v.B, sp[(i+shift+n-1)%n], g, g.B))
			}
			if g := w.Sample(i); !valSame(g, v) {
				return append(fs, core.Failf("SetSample/value", "%s C=%d: after SetSample(%d, %v) a window over the same storage reads %v (bits %#x, want %#x)", tn(t), C, i, v, g, g.B, v.B))
			}
		}
	}
	return
}

// valAppendSample: a window of length 0 over storage pre-filled with the specials rotated by
// shift; every special is appended in turn.
func valAppendSample(t, C, shift int) (fs []F) {
	sp := valSpecials(t)
	n := len(sp)
	frames := (n + C - 1) / C
	root := dyn.Alloc(t, al(C, frames, frames))
	cells := make([]dyn.Val, C*frames)
	for i := range cells {
		cells[i] = sp[(i+shift)%n]
		root.SetSample(i, cells[i])
	}
	b := root.Slice(0, 0)
	for j := 0; j < len(cells); j++ {
		v := sp[j%n]
		b.AppendSample(v)
		old := cells[j]
		cells[j] = v
		if b.Len() != j+1 {
			return append(fs, core.Failf("AppendSample/value", "%s C=%d: after %d calls Len() = %d", tn(t), C, j+1, b.Len()))
		}
		for i, w := range cells {
			g := root.Sample(i)
			if i <= j {
				if g2 := b.Sample(i); !valSame(g2, g) {
					return append(fs, core.Failf("AppendSample/value", "%s C=%d: sample %d reads %v (bits %#x) through the buffer and %v (bits %#x) through its parent", tn(t), C, i, g2, g2.B, g, g.B))
				}
			}
			if !valSame(g, w) {
				what := "was changed"
				if i == j {
					what = fmt.Sprintf("does not hold the appended value (the cell held %v, bits %#x, before)", old, old.B)
				}
				return append(fs, core.Failf("AppendSample/value", "%s C=%d, storage pre-filled with the special values rotated by %d: after AppendSample(%v) as call %d, storage cell %d %s: reads %v (bits %#x), want %v (bits %#x)", tn(t), C, shift, v, j+1, i, what, g, g.B, w, w.B))
			}
		}
	}
	return
}

// valAppend: the same through Append, in place (grow=false: the window has room) or into new
// storage (grow=true: the destination is full).
func valAppend(t, C, shift int, grow bool) (fs []F) {
	sp := valSpecials(t)
	n := len(sp)
	frames := (n + C - 1) / C
	src := dyn.Alloc(t, al(C, frames, frames))
	want := make([]dyn.Val, C*frames)
	for i := range want {
		want[i] = sp[i%n]
		src.SetSample(i, want[i])
	}
	root := dyn.Alloc(t, al(C, frames+1, frames+1))
	cells := make([]dyn.Val, C*(frames+1))
	for i := range cells {
		cells[i] = sp[(i+shift)%n]
		root.SetSample(i, cells[i])
	}
	var dst dyn.Buf
	head := 0
	if grow {
		dst = root.Slice(0, frames+1)
		dst = dst.Slice(frames, frames+1) // one frame, full: the append must move to new storage
		head = C
		// what the destination holds before the appended samples
	} else {
		dst = root.Slice(1, 1)
	}
	var before []dyn.Val
	for i := 0; i < head; i++ {
		before = append(before, dst.Sample(i))
	}
	dst.Append(src)
	if dst.Len() != head+len(want) {
		return append(fs, core.Failf("Append/value", "%s C=%d grow=%v: Len() = %d after appending %d samples to %d", tn(t), C, grow, dst.Len(), len(want), head))
	}
	for i := range before {
		if g := dst.Sample(i); !valSame(g, before[i]) {
			return append(fs, core.Failf("Append/value", "%s C=%d grow=%v: sample %d of the destination changed from %v (bits %#x) to %v (bits %#x)", tn(t), C, grow, i, before[i], before[i].B, g, g.B))
		}
	}
	for i, w := range want {
		if g := dst.Sample(head + i); !valSame(g, w) {
			return append(fs, core.Failf("Append/value", "%s C=%d grow=%v, storage pre-filled with the special values rotated by %d: appended sample %d reads %v (bits %#x), want %v (bits %#x)", tn(t), C, grow, shift, i, g, g.B, w, w.B))
		}
		if g := src.Sample(i); !valSame(g, w) {
			return append(fs, core.Failf("Append/value", "%s C=%d grow=%v: the source changed at %d", tn(t), C, grow, i))
		}
	}
	if !grow {
		for i, w := range cells {
			if i >= C && i < C+len(want) {
				w = want[i-C]
			}
			if g := root.Sample(i); !valSame(g, w) {
				return append(fs, core.Failf("Append/value", "%s C=%d in place: storage cell %d reads %v (bits %#x), want %v (bits %#x)", tn(t), C, i, g, g.B, w, w.B))
			}
		}
	}
	// and the buffer of special values appended to itself: in place (spare capacity for a second copy) or
	// growing (the source is full)
	self := src
	if !grow {
		self = dyn.Alloc(t, al(C, frames, 2*frames))
		for i, w := range want {
			self.SetSample(i, w)
		}
	}
	self.Append(self)
	if self.Len() != 2*len(want) {
		return append(fs, core.Failf("Append/value", "%s C=%d grow=%v: Len() = %d after appending a buffer of %d samples to itself", tn(t), C, grow, self.Len(), len(want)))
	}
	for i := 0; i < 2*len(want); i++ {
		if g, w := self.Sample(i), want[i%len(want)]; !valSame(g, w) {
			return append(fs, core.Failf("Append/value", "%s C=%d grow=%v: a buffer of special values appended to itself reads %v (bits %#x) at %d, want %v (bits %#x)", tn(t), C, grow, g, g.B, i, w, w.B))
		}
	}
	return
}

// valReadWrite: special values that both element types hold (the specials of the narrower one) written
// through Write / WriteStriped[S, D] into a buffer whose cells hold the other specials, and read
// back through Read / ReadStriped[D, S] into slices holding yet other ones; bit patterns must
// survive.  s and d are of the same kind (float, signed or unsigned).
func valReadWrite(s, d, C int) (fs []F) {
	nt := s
	if dyn.Types[d].Bits < dyn.Types[s].Bits {
		nt = d
	}
	sp := valSpecials(nt)
	n := len(sp)
	b := dyn.Alloc(d, al(C, n, n))
	bad := func(fn string, i int, got, want dyn.Val) []F {
		return append(fs, core.Failf(fn+"/value", "%s <-> %s C=%d: %s of the special value %v (bits %#x) at interleaved position %d yields %v (bits %#x); values both types hold pass unchanged", tn(s), tn(d), C, fn, want, want.B, i, got, got.B))
	}
	// Per shift: Write, WriteStriped, Write, WriteStriped, Write, so that through either writer every
	// special value lands on a cell holding its predecessor and on one holding its successor in the
	// list (+0 over -0 and -0 over +0 among them); the readers fill slices pre-filled likewise.
	for shift := 0; shift < n; shift++ {
		at := func(i, k int) dyn.Val { return sp[(i+shift+k+2*n)%n] }
		write := func(k int) []F {
			src := dyn.NewSl(s, C*n)
			for i := 0; i < C*n; i++ {
				src.Set(i, at(i, k))
			}
			if r := dyn.Write(src, b); r != n {
				return append(fs, core.Failf("Write/return", "%s -> %s C=%d: Write of %d samples into %d frames returned %d", tn(s), tn(d), C, C*n, n, r))
			}
			for i := 0; i < C*n; i++ {
				if g := b.Sample(i); !valSame(g, at(i, k)) {
					return bad("Write", i, g, at(i, k))
				}
			}
			return nil
		}
		wstriped := func(k int) []F {
			rows := make([]dyn.Sl, C)
			for c := range rows {
				rows[c] = dyn.NewSl(s, n)
				for f := 0; f < n; f++ {
					rows[c].Set(f, at(f*C+c, k))
				}
			}
			dyn.WriteStriped(s, rows, false, b)
			for i := 0; i < C*n; i++ {
				if g := b.Sample(i); !valSame(g, at(i, k)) {
					return bad("WriteStriped", i, g, at(i, k))
				}
			}
			return nil
		}
		// the buffer holds at(i, k): both readers, into slices pre-filled with at(i, k+pre)
		read := func(k, pre int) []F {
			out := dyn.NewSl(s, C*n)
			for i := 0; i < C*n; i++ {
				out.Set(i, at(i, k+pre))
			}
			dyn.Read(b, out)
			for i := 0; i < C*n; i++ {
				if g := out.Get(i); !valSame(g, at(i, k)) {
					return bad("Read", i, g, at(i, k))
				}
			}
			outs := make([]dyn.Sl, C)
			for c := range outs {
				outs[c] = dyn.NewSl(s, n)
				for f := 0; f < n; f++ {
					outs[c].Set(f, at(f*C+c, k+pre))
				}
			}
			dyn.ReadStriped(b, s, outs, false)
			for c := range outs {
				for f := 0; f < n; f++ {
					if g := outs[c].Get(f); !valSame(g, at(f*C+c, k)) {
						return bad("ReadStriped", f*C+c, g, at(f*C+c, k))
					}
				}
			}
			return nil
		}
		for _, step := range []func() []F{
			func() []F { return write(0) }, func() []F { return read(0, 1) },
			func() []F { return wstriped(1) }, func() []F { return write(0) },
			func() []F { return wstriped(-1) }, func() []F { return write(0) }, func() []F { return read(0, -1) },
		} {
			if f := step(); f != nil {
				return f
			}
		}
	}
	return
}

// valTypes: every type of the facade (built-in, named, same-named local ones).
func valTypes() []int {
	var r []int
	for _, t := range dyn.Types {
		r = append(r, t.ID)
	}
	return r
}
