package props

import (
	"verif/mc/core"
	"verif/mc/schedx"
)

func init() {
	core.RegisterSelfTest("schedx: interleaving counts, preemption bounds, lost update, replay", schedx.SelfTest)
	if core.RaceEnabled {
		core.RegisterSelfTest("race monitor: racy canary reported, adjacent cells and atomically ordered accesses not", raceCanary)
	}
}
