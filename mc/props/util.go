// Package props holds one file per property; each registers a core.Prop.
package props

import (
	"encoding/json"
	"fmt"
	"reflect"
	"unsafe"

	"pipelined.dev/signal"
	"verif/mc/core"
	"verif/mc/dyn"
)

type F = core.Failure

func tn(t int) string { return dyn.Types[t].Name }

func typeByName(n string) int {
	for _, t := range dyn.Types {
		if t.Name == n {
			return t.ID
		}
	}
	panic("unknown type " + n)
}

func al(c, l, k int) signal.Allocator { return signal.Allocator{Channels: c, Length: l, Capacity: k} }

// decode unmarshals a replay case.
func decode[T any](raw json.RawMessage) T {
	var v T
	if err := json.Unmarshal(raw, &v); err != nil {
		panic(fmt.Sprintf("bad replay case: %v", err))
	}
	return v
}

// header is everything a buffer reports about its shape.
type header struct {
	Ch, Bits, Len, Cap, Length, Capacity int
}

func hdr(b dyn.Buf) header {
	return header{b.Channels(), b.BitDepth(), b.Len(), b.Cap(), b.Length(), b.Capacity()}
}

// full returns a view of b over its whole capacity (the only public way to look at spare
// capacity); for buffers with zero channels it returns b itself.
func full(b dyn.Buf) dyn.Buf {
	if b.Channels() == 0 {
		return b
	}
	return b.Slice(0, b.Capacity())
}

// toks reads all samples of b (over Len) as token integers.
func toks(b dyn.Buf) []int64 {
	n := b.Len()
	r := make([]int64, n)
	for i := 0; i < n; i++ {
		r[i] = b.Sample(i).Tok()
	}
	return r
}

// fill writes tokens first, first+1, ... over Len of b and returns the next token.
func fill(b dyn.Buf, first int64) int64 {
	n := b.Len()
	for i := 0; i < n; i++ {
		b.SetSample(i, dyn.Tok(b.T(), tk(first)))
		first++
	}
	return first
}

func eqI(a, b []int64) bool {
	if len(a) != len(b) {
		return false
	}
	for i := range a {
		if a[i] != b[i] {
			return false
		}
	}
	return true
}

func cp(a []int64) []int64 { return append([]int64(nil), a...) }

func ceilDiv(a, b int) int {
	if b == 0 {
		return 0
	}
	return (a + b - 1) / b
}

// ptrOf returns the pointer held in an interface value (a pooled *signal.Buffer[T]).
func ptrOf(x any) unsafe.Pointer { return unsafe.Pointer(reflect.ValueOf(x).Pointer()) }

// tk folds a token counter into 1..120 so that it is representable in every element type.
func tk(x int64) int64 { return 1 + (x-1)%120 }

func max0(x int) int {
	if x < 0 {
		return 0
	}
	return x
}

// seq returns lo..hi.
func seq(lo, hi int) []int {
	var r []int
	for i := lo; i <= hi; i++ {
		r = append(r, i)
	}
	return r
}

// isF32 reports whether t is a 32-bit floating type (float32 or a named type over it).
func isF32(t int) bool { return dyn.Types[t].Kind == dyn.Float && dyn.Types[t].Bits == 32 }

func init() {
	core.ExtraNote = func() string {
		if n, ok := dyn.LibraryPanic.Load().(string); ok {
			return n
		}
		return ""
	}
}
