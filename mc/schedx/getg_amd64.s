#include "textflag.h"

// func getg() uintptr — the address of the running goroutine's g (a goroutine identity that
// is stable for the goroutine's life); amd64 only.
TEXT ·getg(SB),NOSPLIT,$0-8
	MOVQ (TLS), AX
	MOVQ AX, ret+0(FP)
	RET
