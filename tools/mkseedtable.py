#!/usr/bin/env python3
"""Prints the markdown table of seeded changes for DESIGN.md §11 from /verif/seeded/*/meta.json and MATRIX.md."""
import json, glob, os, re
rows = {}
for l in open('/verif/seeded/MATRIX.md'):
    m = re.match(r"\| (\S+) \| (\S+) \| (\S+) \| (\S+) \| (\S+) \|", l)
    if m and m.group(1) != 'seed':
        rows[m.group(1)] = (m.group(4), m.group(5))
print("| seed | breaks | what it needs in order to manifest | reported by the check as | first missed? |")
print("|---|---|---|---|---|")
for d in sorted(glob.glob('/verif/seeded/*/meta.json')):
    n = os.path.basename(os.path.dirname(d)); m = json.load(open(d))
    ex, key = rows.get(n, ('?', '?'))
    missed = m.get('initially_missed_then_check_strengthened') or ''
    needs = m['needs_to_manifest'].replace('|', '/')
    last = 'yes: ' + missed.replace('|','/').removeprefix('missed at first: ') if missed else 'no'
    note = (m.get('note') or '').replace('|', '/')
    if note and (ex != '1'):
        last = note if not missed else last + ' — ' + note
    print(f"| {n} | {m['property_id']} | {needs} | `{key}` | {last} |")
