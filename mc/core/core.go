// Package core holds what every check shares: the run context, violation collection with
// deterministic re-execution, known-findings matching, evidence and replay files.
package core

import (
	"bufio"
	"crypto/sha256"
	"encoding/hex"
	"encoding/json"
	"fmt"
	"os"
	"path/filepath"
	"reflect"
	"runtime"
	"sort"
	"strconv"
	"strings"
	"sync"
	"sync/atomic"
	"time"
)

// Root is the /verif directory (overridable for tests of the machinery).
var Root = envOr("VERIF_ROOT", "/verif")

func envOr(k, d string) string {
	if v := os.Getenv(k); v != "" {
		return v
	}
	return d
}

// Failure is one way in which one case contradicts the property.
type Failure struct {
	// Key is the signature of the failure: function / instantiation / kind of
	// failure.  Known findings are matched on it.
	Key string `json:"key"`
	// Code, when HasCode, is the numeric input (sample code, argument) that failed; known
	// findings may restrict a key to a range of codes.
	Code    int64  `json:"code,omitempty"`
	HasCode bool   `json:"has_code,omitempty"`
	Msg     string `json:"msg"`
}

func Failf(key string, format string, a ...any) Failure {
	return Failure{Key: key, Msg: fmt.Sprintf(format, a...)}
}

// Prop is one registered check.
type Prop struct {
	ID     string
	Level  string // evidence level
	Design string
	// Run explores; it reports through Ctx.
	Run func(c *Ctx)
	// RunCase re-executes one recorded case (the JSON the Run function passed to
	// Ctx.Fail) without the explorer and returns its failures.
	RunCase func(c *Ctx, raw json.RawMessage) []Failure
	// GoTest, when set, renders a recorded case as a plain Go unit test (package signal_test).
	GoTest func(raw json.RawMessage) string
	// Worker, when set, serves `mc <ID> --worker <arg>`: the part of the check that runs in
	// another binary (the -race build) as a sub-process and reports with EmitWorkerResult.
	Worker func(c *Ctx, arg string) int
}

var registry = map[string]*Prop{}

func Register(p *Prop) { registry[p.ID] = p }

func Lookup(id string) *Prop { return registry[id] }

func IDs() []string {
	var ids []string
	for id := range registry {
		ids = append(ids, id)
	}
	sort.Strings(ids)
	return ids
}

type knownEntry struct {
	prop   string
	key    string
	ranged bool
	lo, hi int64
	text   string
	hits   int64
	first  string
}

type failRec struct {
	key    string
	count  int64
	cases  []json.RawMessage
	fails  []Failure
	codeLo int64
	codeHi int64
	coded  bool
}

// Ctx is the context of one run of one check.
type Ctx struct {
	Prop  *Prop
	Tier  string
	Seed  int64
	Start time.Time
	// Deadline is the internal time cap; exceeding it ends exploration with
	// exhaustive:false and exit 0.
	Deadline time.Time

	mu          sync.Mutex
	cov         map[string]any
	assumptions []string
	samples     []any
	known       []*knownEntry
	fails       map[string]*failRec
	failOrder   []string
	evals       atomic.Int64
	nontrivial  atomic.Int64
	capHit      atomic.Bool
	stretched   atomic.Bool
	procs       atomic.Int32 // GOMAXPROCS set by WithProcs (0: the default)
	escaped     []escapedPanic
	watchdog    sync.Once
	internalErr []string
	notes       []string
}

// Current is the context of the check this process runs (nil in worker processes).
var Current *Ctx

// LibraryGoroutinePanic records a panic in a goroutine that the library started itself on a valid call
// (the shim recovers it; without that the process would end without a verdict).  The caller inside the
// library may now wait forever for that goroutine: a watchdog ends the check with the violation after a
// minute if it has not ended by itself.
func (c *Ctx) LibraryGoroutinePanic(msg, stack string) {
	where, _ := LibraryPanicOrigin(stack)
	c.Escaped(msg+" (in a goroutine started by the library)", where, stack)
	c.watchdog.Do(func() {
		time.AfterFunc(60*time.Second, func() {
			id := c.Prop.ID
			key := id + "/library-panic"
			h := sha256.Sum256([]byte(id + "\x00" + key))
			path := filepath.Join(Root, "replays", id+"-"+hex.EncodeToString(h[:6])+".json")
			b, _ := json.MarshalIndent(map[string]any{"property": id, "key": key, "panic": msg, "origin": where, "stack": stack, "tier": c.Tier,
				"note": "a goroutine started by the library panicked on a valid call and the check did not come to an end afterwards (the library waits for that goroutine?)"}, "", " ")
			os.WriteFile(path, b, 0o644)
			fmt.Printf("VIOLATION property=%s replay=%s key=%s count=1 :: a goroutine started by the library panicked on a valid call made by the harness: %s (in %s)\n", id, path, key, msg, where)
			os.Exit(1)
		})
	})
}

func NewCtx(p *Prop, tier string, seed int64) *Ctx {
	c := &Ctx{Prop: p, Tier: tier, Seed: seed, Start: time.Now(), cov: map[string]any{}, fails: map[string]*failRec{}}
	Current = c
	budget := 50 * time.Second
	if tier == "thorough" {
		budget = 15 * time.Minute
	}
	if v := os.Getenv("VERIF_BUDGET_S"); v != "" {
		if s, err := strconv.Atoi(v); err == nil {
			budget = time.Duration(s) * time.Second
		}
	}
	c.Deadline = c.Start.Add(budget)
	c.loadKnown()
	return c
}

func (c *Ctx) Quick() bool { return c.Tier != "thorough" }

// Expired reports whether the time cap was reached (and remembers that it was).
func (c *Ctx) Expired() bool {
	now := time.Now()
	c.mu.Lock()
	dl := c.Deadline
	c.mu.Unlock()
	if !now.After(dl) {
		return false
	}
	// The budget is meant for a machine that is otherwise idle.  When it is oversubscribed (several
	// checks at once), the nominal deadline is stretched by the load factor, at most MaxStretch times:
	// a check that silently skips its exhaustive core because the machine was busy is worse than a slow one.
	if !c.stretched.Load() {
		c.stretched.Store(true)
		if f := loadFactor(); f > 1.3 {
			max := 5.0
			if c.Tier == "thorough" {
				max = 2
			}
			if f > max {
				f = max
			}
			c.mu.Lock()
			budget := c.Deadline.Sub(c.Start)
			c.Deadline = c.Start.Add(time.Duration(float64(budget) * f))
			dl = c.Deadline
			c.cov["time_budget_stretched_by_load_factor"] = f
			c.mu.Unlock()
			if !now.After(dl) {
				return false
			}
		}
	}
	c.capHit.Store(true)
	return true
}

// loadFactor is the 1-minute load average divided by the number of CPUs (1 when unknown).
func loadFactor() float64 {
	b, err := os.ReadFile("/proc/loadavg")
	if err != nil {
		return 1
	}
	fs := strings.Fields(string(b))
	if len(fs) == 0 {
		return 1
	}
	l, err := strconv.ParseFloat(fs[0], 64)
	if err != nil {
		return 1
	}
	return l / float64(runtime.NumCPU())
}

func (c *Ctx) CapHit() bool { return c.capHit.Load() }

// Escaped records a panic of the library that escaped from a call the harness made outside any
// guarded case (origin frame in the library; see LibraryPanicOrigin).  It becomes a violation of its
// own; the check goes on or, if it cannot, still reports what it found.
func (c *Ctx) Escaped(msg, where, stack string) {
	c.mu.Lock()
	c.escaped = append(c.escaped, escapedPanic{msg, where, stack})
	c.mu.Unlock()
}

type escapedPanic struct{ Msg, Where, Stack string }

// LibraryPanicOrigin looks at a stack taken in a deferred recover: it returns the frame in which the
// panic originated and whether that frame belongs to the library under test (not to the harness, the
// shims or the runtime's own panic helpers).
func LibraryPanicOrigin(stack string) (where string, lib bool) {
	lines := strings.Split(stack, "\n")
	seenPanic := false
	for _, l := range lines {
		t := strings.TrimSpace(l)
		if strings.HasPrefix(t, "panic(") {
			seenPanic = true
			continue
		}
		if !seenPanic || t == "" || strings.HasPrefix(t, "/") || strings.HasPrefix(t, "runtime.") || strings.HasPrefix(t, "goroutine ") {
			continue
		}
		// first function frame below the panic call
		where = t
		lib = strings.HasPrefix(t, "pipelined.dev/signal.") || (strings.HasPrefix(t, "pipelined.dev/signal/") && !strings.Contains(t, "/verif"))
		return
	}
	return "", false
}

// Protect runs f; a panic that originates in the library is recorded with Escaped, any other panic
// is re-raised (an error of the harness).
func (c *Ctx) Protect(f func()) {
	defer func() {
		if r := recover(); r != nil {
			buf := make([]byte, 16384)
			buf = buf[:runtime.Stack(buf, false)]
			where, lib := LibraryPanicOrigin(string(buf))
			if !lib {
				panic(r)
			}
			c.Escaped(fmt.Sprint(r), where, string(buf))
		}
	}()
	f()
}

// MarkCapped records that a part of the check (a worker process) stopped at its time cap.
func (c *Ctx) MarkCapped() { c.capHit.Store(true) }

// Eval counts n evaluated cases, nt of them non-trivial.
func (c *Ctx) Eval(n, nt int64) {
	c.evals.Add(n)
	c.nontrivial.Add(nt)
}

func (c *Ctx) Set(k string, v any) {
	c.mu.Lock()
	c.cov[k] = v
	c.mu.Unlock()
}

// Add adds n to the integer coverage counter k.
func (c *Ctx) Add(k string, n int64) {
	c.mu.Lock()
	old, _ := c.cov[k].(int64)
	c.cov[k] = old + n
	c.mu.Unlock()
}

func (c *Ctx) Assume(s ...string) {
	c.mu.Lock()
	c.assumptions = append(c.assumptions, s...)
	c.mu.Unlock()
}

func (c *Ctx) Note(format string, a ...any) {
	c.mu.Lock()
	c.notes = append(c.notes, fmt.Sprintf(format, a...))
	c.mu.Unlock()
}

// Sample records an explored case for the evidence file (the first few are kept).
func (c *Ctx) Sample(v any) {
	c.mu.Lock()
	if len(c.samples) < 8 {
		c.samples = append(c.samples, v)
	}
	c.mu.Unlock()
}

func (c *Ctx) WantSample() bool {
	c.mu.Lock()
	defer c.mu.Unlock()
	return len(c.samples) < 8
}

// InternalError records a failure of the machinery itself (exit 2, never a verdict).
func (c *Ctx) InternalError(format string, a ...any) {
	c.mu.Lock()
	c.internalErr = append(c.internalErr, fmt.Sprintf(format, a...))
	c.mu.Unlock()
}

// Fail records failures of the case cs (any JSON-marshalable value that RunCase accepts).
func (c *Ctx) Fail(cs any, fs ...Failure) {
	if len(fs) == 0 {
		return
	}
	var raw json.RawMessage
	c.mu.Lock()
	defer c.mu.Unlock()
	for _, f := range fs {
		if p := c.procs.Load(); p > 0 {
			f.Msg += fmt.Sprintf(" [with GOMAXPROCS=%d]", p)
		}
		if k := c.matchKnown(f); k != nil {
			k.hits++
			if k.first == "" {
				k.first = f.Msg
			}
			continue
		}
		r := c.fails[f.Key]
		if r == nil {
			r = &failRec{key: f.Key}
			c.fails[f.Key] = r
			c.failOrder = append(c.failOrder, f.Key)
		}
		r.count++
		if f.HasCode {
			if !r.coded || f.Code < r.codeLo {
				r.codeLo = f.Code
			}
			if !r.coded || f.Code > r.codeHi {
				r.codeHi = f.Code
			}
			r.coded = true
		}
		if len(r.cases) < 3 {
			if raw == nil {
				b, err := json.Marshal(cs)
				if err != nil {
					c.internalErr = append(c.internalErr, "cannot marshal case: "+err.Error())
					continue
				}
				if p := c.procs.Load(); p > 0 {
					// found under a non-default GOMAXPROCS: the replay has to set it again
					b, _ = json.Marshal(procsCase{Procs: int(p), Case: b})
				}
				raw = b
			}
			r.cases = append(r.cases, raw)
			r.fails = append(r.fails, f)
		}
	}
}

// Check is Eval(1, nt) + Fail.
func (c *Ctx) Check(cs any, nontrivial bool, fs []Failure) {
	nt := int64(0)
	if nontrivial {
		nt = 1
	}
	c.Eval(1, nt)
	if len(fs) > 0 {
		c.Fail(cs, fs...)
	}
}

func (c *Ctx) matchKnown(f Failure) *knownEntry {
	for _, k := range c.known {
		if k.key != f.Key {
			continue
		}
		if k.ranged {
			if !f.HasCode || f.Code < k.lo || f.Code > k.hi {
				continue
			}
		}
		return k
	}
	return nil
}

// loadKnown reads KNOWN_FINDINGS.txt:
//
//	known: property=C09 key=<signature> [codes=<lo>..<hi>] <what fails>
//	fixed: property=C14 <commit> <what failed>          (suppresses nothing)
func (c *Ctx) loadKnown() {
	f, err := os.Open(filepath.Join(Root, "KNOWN_FINDINGS.txt"))
	if err != nil {
		return
	}
	defer f.Close()
	sc := bufio.NewScanner(f)
	for sc.Scan() {
		l := strings.TrimSpace(sc.Text())
		if !strings.HasPrefix(l, "known:") {
			continue
		}
		fs := strings.Fields(strings.TrimPrefix(l, "known:"))
		k := &knownEntry{}
		rest := []string{}
		for _, w := range fs {
			switch {
			case strings.HasPrefix(w, "property=") && k.prop == "":
				k.prop = strings.TrimPrefix(w, "property=")
			case strings.HasPrefix(w, "key=") && k.key == "":
				k.key = strings.TrimPrefix(w, "key=")
			case strings.HasPrefix(w, "codes=") && !k.ranged:
				p := strings.SplitN(strings.TrimPrefix(w, "codes="), "..", 2)
				if len(p) == 2 {
					lo, e1 := strconv.ParseInt(p[0], 10, 64)
					hi, e2 := strconv.ParseInt(p[1], 10, 64)
					if e1 == nil && e2 == nil {
						k.ranged, k.lo, k.hi = true, lo, hi
					}
				}
			default:
				rest = append(rest, w)
			}
		}
		k.text = strings.Join(rest, " ")
		if k.prop == c.Prop.ID && k.key != "" {
			c.known = append(c.known, k)
		}
	}
}

// Finish re-executes violations, writes replay and evidence files, prints the verdict
// lines and returns the exit code.
func (c *Ctx) Finish() int {
	c.mu.Lock()
	defer c.mu.Unlock()
	wall := time.Since(c.Start).Seconds()
	id := c.Prop.ID
	nviol := 0
	var lines []string
	os.MkdirAll(filepath.Join(Root, "replays"), 0o755)
	for _, key := range c.failOrder {
		r := c.fails[key]
		// determinism before belief: re-execute the first recorded case 5x on its own
		reproducible := true
		if c.Prop.RunCase != nil && len(r.cases) > 0 {
			for i := 0; i < 5 && reproducible; i++ {
				fs := c.runCaseLocked(r.cases[0])
				found := false
				for _, f := range fs {
					if f.Key == key {
						found = true
					}
				}
				if !found {
					reproducible = false
				}
			}
		}
		h := sha256.Sum256([]byte(id + "\x00" + key))
		path := filepath.Join(Root, "replays", id+"-"+hex.EncodeToString(h[:6])+".json")
		rep := map[string]any{
			"property": id,
			"key":      key,
			"count":    r.count,
			"case":     firstRaw(r.cases),
			"failure":  r.fails[0],
			"more":     r.cases,
			"tier":     c.Tier,
		}
		if r.coded {
			rep["failing_code_range"] = []int64{r.codeLo, r.codeHi}
		}
		rep["reproducible_in_isolation"] = reproducible
		b, _ := json.MarshalIndent(rep, "", " ")
		os.WriteFile(path, b, 0o644)
		nviol++
		extra := ""
		if r.coded {
			extra = fmt.Sprintf(" codes=%d..%d", r.codeLo, r.codeHi)
		}
		if !reproducible {
			// The exploration observed the failure on the real code, but the recorded case alone does not
			// show it again: the implementation's behaviour depends on calls made before it (hidden state
			// shared between calls).  Still a violation of a universally quantified property; said so.
			extra += " reproducible_in_isolation=false(the failure depends on earlier calls: state kept between calls)"
		}
		if ExtraNote != nil {
			if n := ExtraNote(); n != "" {
				extra += " note=(" + n + ")"
			}
		}
		lines = append(lines, fmt.Sprintf("VIOLATION property=%s replay=%s key=%s count=%d%s :: %s", id, path, key, r.count, extra, r.fails[0].Msg))
	}
	// a conversion that panicked inside a block helper (its results so far were kept, so the oracles may
	// have seen nothing wrong) is a panic on a valid call all the same
	if ExtraNote != nil && len(c.escaped) == 0 {
		if n := ExtraNote(); n != "" {
			c.escaped = append(c.escaped, escapedPanic{n, "a conversion called on two valid buffers of equal channel count", ""})
		}
	}
	// panics of the library that escaped from calls outside any guarded case
	if len(c.escaped) > 0 {
		e := c.escaped[0]
		key := id + "/library-panic"
		h := sha256.Sum256([]byte(id + "\x00" + key))
		path := filepath.Join(Root, "replays", id+"-"+hex.EncodeToString(h[:6])+".json")
		b, _ := json.MarshalIndent(map[string]any{"property": id, "key": key, "count": len(c.escaped), "panic": e.Msg, "origin": e.Where, "stack": e.Stack, "tier": c.Tier,
			"note": "the library panicked on a valid call that the harness made while preparing or inspecting its configurations; not a recorded case: run the check again to see it"}, "", " ")
		os.WriteFile(path, b, 0o644)
		nviol++
		lines = append(lines, fmt.Sprintf("VIOLATION property=%s replay=%s key=%s count=%d :: the library panicked on a valid call made by the harness: %s (in %s)", id, path, key, len(c.escaped), e.Msg, e.Where))
	}
	for _, k := range c.known {
		if k.hits > 0 {
			rg := ""
			if k.ranged {
				rg = fmt.Sprintf(" codes=%d..%d", k.lo, k.hi)
			}
			fmt.Printf("KNOWN-FINDING: property=%s key=%s%s hits=%d %s\n", id, k.key, rg, k.hits, k.text)
		} else {
			fmt.Printf("note: known finding not observed in this run: property=%s key=%s %s\n", id, k.key, k.text)
		}
	}
	for _, n := range c.notes {
		fmt.Println("note:", n)
	}

	cov := map[string]any{}
	for k, v := range c.cov {
		cov[k] = v
	}
	if _, ok := cov["evaluations"]; !ok {
		cov["evaluations"] = c.evals.Load()
	}
	if _, ok := cov["distinct_nontrivial"]; !ok {
		cov["distinct_nontrivial"] = c.nontrivial.Load()
	}
	if _, ok := cov["samples"]; !ok {
		cov["samples"] = c.samples
	}
	if c.capHit.Load() {
		cov["exhaustive"] = false
		cov["time_cap_hit"] = true
	} else if _, ok := cov["exhaustive"]; !ok {
		cov["exhaustive"] = true
	}
	knownHits := map[string]int64{}
	for _, k := range c.known {
		if k.hits > 0 {
			knownHits[k.key] = k.hits
		}
	}
	if len(knownHits) > 0 {
		cov["known_findings_hit"] = knownHits
	}
	ev := map[string]any{
		"property_id": id,
		"tier":        c.Tier,
		"seed":        c.Seed,
		"level":       c.Prop.Level,
		"coverage":    cov,
		"assumptions": c.assumptions,
		"wall_s":      wall,
		"violations":  nviol,
		"go":          runtime.Version(),
		"gomaxprocs":  runtime.GOMAXPROCS(0),
	}
	if c.assumptions == nil {
		ev["assumptions"] = []string{}
	}
	b, err := json.MarshalIndent(ev, "", " ")
	if err != nil {
		c.internalErr = append(c.internalErr, "evidence: "+err.Error())
	}
	if os.Getenv("VERIF_NO_EVIDENCE") == "" {
		os.MkdirAll(filepath.Join(Root, "evidence"), 0o755)
		os.WriteFile(filepath.Join(Root, "evidence", id+".json"), b, 0o644)
	}

	if len(c.internalErr) > 0 {
		for _, e := range c.internalErr {
			fmt.Println("INTERNAL-ERROR:", e)
		}
		for _, l := range lines {
			fmt.Println("unconfirmed:", l)
		}
		return 2
	}
	for _, l := range lines {
		fmt.Println(l)
	}
	fmt.Printf("%s %s: evaluations=%v states=%v transitions=%v violations=%d exhaustive=%v wall=%.1fs\n",
		id, c.Tier, cov["evaluations"], cov["states"], cov["transitions"], nviol, cov["exhaustive"], wall)
	if nviol > 0 {
		return 1
	}
	return 0
}

func firstRaw(r []json.RawMessage) json.RawMessage {
	if len(r) == 0 {
		return json.RawMessage("null")
	}
	return r[0]
}

func (c *Ctx) runCaseLocked(raw json.RawMessage) []Failure {
	// RunCase must not call Fail (it returns failures), so holding mu is fine; but it may
	// call Eval/Set — those use atomics or take mu, so run it unlocked.
	c.mu.Unlock()
	defer c.mu.Lock()
	return c.runCase(raw)
}

// procsCase wraps a case that was found while GOMAXPROCS was set to a non-default value.
type procsCase struct {
	Procs int             `json:"_gomaxprocs"`
	Case  json.RawMessage `json:"_case"`
}

func unwrapProcs(raw json.RawMessage) (int, json.RawMessage) {
	var pc procsCase
	if json.Unmarshal(raw, &pc) == nil && pc.Procs > 0 && len(pc.Case) > 0 {
		return pc.Procs, pc.Case
	}
	return 0, raw
}

func (c *Ctx) runCase(raw json.RawMessage) []Failure {
	if p, inner := unwrapProcs(raw); p > 0 {
		old := runtime.GOMAXPROCS(p)
		defer runtime.GOMAXPROCS(old)
		fs := c.Prop.RunCase(c, inner)
		for i := range fs {
			fs[i].Msg += fmt.Sprintf(" [with GOMAXPROCS=%d]", p)
		}
		return fs
	}
	return c.Prop.RunCase(c, raw)
}

// WithProcs runs f with GOMAXPROCS set to n (the process environment is an input too: code that
// splits work by the number of processors behaves differently for 1, 2, a non-power-of-two, or more
// than the machine has).  Failures recorded meanwhile remember n, and their replay sets it again.
// Must not overlap with other parallel sections of the check.
func (c *Ctx) WithProcs(n int, f func()) {
	old := runtime.GOMAXPROCS(n)
	c.procs.Store(int32(n))
	defer func() {
		c.procs.Store(0)
		runtime.GOMAXPROCS(old)
	}()
	f()
}

// Procs returns the GOMAXPROCS value set by WithProcs (0 outside).
func (c *Ctx) Procs() int { return int(c.procs.Load()) }

// ReplayFile re-executes the case stored in a replay file and prints what it observes.
func (c *Ctx) ReplayFile(path string) int {
	b, err := os.ReadFile(path)
	if err != nil {
		fmt.Println("INTERNAL-ERROR:", err)
		return 2
	}
	var rep struct {
		Property string          `json:"property"`
		Key      string          `json:"key"`
		Case     json.RawMessage `json:"case"`
	}
	if err := json.Unmarshal(b, &rep); err != nil {
		fmt.Println("INTERNAL-ERROR:", err)
		return 2
	}
	if c.Prop.RunCase == nil {
		fmt.Println("INTERNAL-ERROR: property has no replayer")
		return 2
	}
	fs := c.runCase(rep.Case)
	fmt.Printf("replay of %s: case %s\n", path, rep.Case)
	hit := false
	for _, f := range fs {
		fmt.Printf("  failure key=%s :: %s\n", f.Key, f.Msg)
		if f.Key == rep.Key {
			hit = true
		}
	}
	if c.Prop.GoTest != nil {
		_, inner := unwrapProcs(rep.Case)
		if src := c.Prop.GoTest(inner); src != "" {
			tp := strings.TrimSuffix(path, ".json") + "_test.go"
			if os.WriteFile(tp, []byte(src), 0o644) == nil {
				fmt.Printf("plain Go test for this case written to %s (copy it into the repository root and run: go test -run TestReplay .)\n", tp)
			}
		}
	}
	if hit {
		fmt.Printf("VIOLATION property=%s replay=%s\n", c.Prop.ID, path)
		return 1
	}
	fmt.Println("the recorded failure does not occur on the current tree")
	return 0
}

// ParallelFor runs f(i) for i in [0,n) on all cores; it stops handing out work when the
// time cap is reached.
func (c *Ctx) ParallelFor(n int, f func(i int)) {
	workers := runtime.GOMAXPROCS(0)
	if workers > n {
		workers = n
	}
	var next atomic.Int64
	var wg sync.WaitGroup
	for w := 0; w < workers; w++ {
		wg.Add(1)
		go func() {
			defer wg.Done()
			for {
				i := int(next.Add(1) - 1)
				if i >= n {
					return
				}
				if c.Expired() {
					return
				}
				c.Protect(func() { f(i) })
			}
		}()
	}
	wg.Wait()
}

// Same reports deep equality (helper for oracles).
func Same(a, b any) bool { return reflect.DeepEqual(a, b) }

// Self-tests of the machinery (engines register theirs); run by `./check setup`.
var selfTests []struct {
	name string
	f    func() error
}

func RegisterSelfTest(name string, f func() error) {
	selfTests = append(selfTests, struct {
		name string
		f    func() error
	}{name, f})
}

func RunSelfTests() int {
	rc := 0
	for _, t := range selfTests {
		if err := t.f(); err != nil {
			fmt.Printf("selftest %s: FAILED: %v\n", t.name, err)
			rc = 2
		} else {
			fmt.Printf("selftest %s: ok\n", t.name)
		}
	}
	return rc
}

// Export returns the violations recorded so far (first case per key), for a worker process.
func (c *Ctx) Export() []WorkerViolation {
	c.mu.Lock()
	defer c.mu.Unlock()
	var out []WorkerViolation
	for _, key := range c.failOrder {
		r := c.fails[key]
		if len(r.cases) > 0 {
			out = append(out, WorkerViolation{Case: r.cases[0], Failure: r.fails[0]})
		}
	}
	return out
}

// Reversed reports whether this process is the reverse-order pass of a sweep.
func Reversed() bool { return os.Getenv("VERIF_ORDER") == "reverse" }

// ReverseOrderPass re-runs the check's quick domains in a fresh process with the
// instantiations visited in the opposite order, and merges what it finds: state that the
// library keeps between calls (a cache filled by the first caller) shows up in one of the
// two orders.
func (c *Ctx) ReverseOrderPass(binary string) *WorkerResult {
	if Reversed() {
		return nil
	}
	res, _, err := RunWorker(binary, c.Prop.ID, "--worker", "reverse", "VERIF_ORDER=reverse", "VERIF_TIER=quick", "VERIF_NO_EVIDENCE=1")
	if err != nil {
		c.InternalError("reverse-order pass: %v", err)
		return nil
	}
	for _, v := range res.Violations {
		c.Fail(v.Case, v.Failure)
	}
	c.Set("reverse_order_pass_evaluations", res.Executions)
	return res
}

// ReverseOrderPassAsync starts the reverse-order process in the background (it is a process of its own:
// nothing it does can disturb the order of calls in this one) and returns the function that waits for it.
func (c *Ctx) ReverseOrderPassAsync(binary string) func() *WorkerResult {
	ch := make(chan *WorkerResult, 1)
	go func() { ch <- c.ReverseOrderPass(binary) }()
	return func() *WorkerResult { return <-ch }
}

// SweepWorker is the Worker of the sweep checks: runs the check itself (reverse order) and
// reports its violations.
func SweepWorker(c *Ctx, arg string) int {
	c.Prop.Run(c)
	res := &WorkerResult{CanaryOK: true, Violations: c.Export(), Executions: c.evals.Load()}
	if v, ok := c.cov["evaluations"].(int64); ok {
		res.Executions = v
	}
	if d, ok := c.cov["ctx_digests"].(map[string]string); ok {
		res.Digests = d
	}
	EmitWorkerResult(res)
	return 0
}

// CtxEvals returns the evaluations counted through Eval so far.
func (c *Ctx) CtxEvals() int64 { return c.evals.Load() }

// ExtraNote, when set, adds a remark to every VIOLATION line (why an oracle saw what it saw).
var ExtraNote func() string

// Guard runs one case; a panic that escapes it (the library panicked on a valid call that the
// harness makes while building or inspecting the case) becomes a failure instead of ending
// the check.
func Guard(key string, f func() []Failure) (fs []Failure) {
	defer func() {
		if r := recover(); r != nil {
			if msg, ok := r.(string); ok && (strings.HasPrefix(msg, "world:") || strings.HasPrefix(msg, "c02:") || strings.HasPrefix(msg, "c10:") || strings.HasPrefix(msg, "bad replay case") || strings.HasPrefix(msg, "unknown")) {
				panic(r) // an error of the harness itself, not of the library
			}
			buf := make([]byte, 2048)
			buf = buf[:runtime.Stack(buf, false)]
			where := ""
			for _, l := range strings.Split(string(buf), "\n") {
				if strings.Contains(l, "pipelined.dev/signal.") && !strings.Contains(l, "verif") {
					where = strings.TrimSpace(l)
					break
				}
			}
			fs = append(fs, Failure{Key: key + "/unexpected-panic", Msg: fmt.Sprintf("the library panicked on a valid call made while building or inspecting the case: %v (in %s)", r, where)})
		}
	}()
	return f()
}
