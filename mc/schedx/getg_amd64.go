package schedx

func getg() uintptr

// G returns an identity of the calling goroutine.
func G() uintptr { return getg() }
