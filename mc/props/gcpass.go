package props

import (
	"fmt"
	"runtime"
	"time"

	"verif/mc/core"
	"verif/mc/dyn"
)

// Windows that outlive their parent.  A window made with Slice shares the parent's storage but does
// not keep the parent's header reachable; an implementation that ties the life of the storage to the
// header (a finalizer that recycles "dead" buffers) hands storage that is still in use to a later
// allocation.  The pass keeps only windows (Go variables of the parents are dropped), forces garbage
// collections and lets finalizers run, then allocates buffers of the same element type and total
// capacity and checks both ways that nothing is shared.  appendSample: additionally append through
// the surviving window afterwards (C04's clause: no write outside the buffer's own capacity window).

type gcShape struct{ C, K, S, E int } // parent Alloc(C, K, K); window Slice(S, E)

var gcShapes = []gcShape{{1, 4, 1, 3}, {2, 3, 0, 1}, {3, 2, 1, 1}, {1, 64, 10, 20}, {2, 1100, 1000, 1050}, {1, 70000, 5, 6}}

type gcWindow struct {
	t    int
	sh   gcShape
	w    dyn.Buf // the only thing kept
	want []int64 // tokens over the window's capacity
}

func gcMakeWindow(t int, sh gcShape, first int64) gcWindow {
	b := dyn.Alloc(t, al(sh.C, sh.K, sh.K))
	fill(b, first)
	w := b.Slice(sh.S, sh.E)
	fw := full(w)
	want := make([]int64, fw.Len())
	for i := range want {
		want[i] = fw.Sample(i).Tok()
	}
	return gcWindow{t, sh, w, want}
}

func gcCollect() {
	// Finalizers run on one goroutine, after the collection that found their objects unreachable; a
	// sentinel with a finalizer of its own tells when that goroutine has got through the backlog of a
	// cycle (bounded wait: there may be none at all).
	for round := 0; round < 3; round++ {
		done := make(chan struct{})
		sentinel := new([16]byte)
		runtime.SetFinalizer(sentinel, func(*[16]byte) { close(done) })
		sentinel = nil
		runtime.GC()
		select {
		case <-done:
		case <-time.After(2 * time.Second):
		}
		runtime.Gosched()
	}
}

// gcCheck: allocations of the same type and total capacity after the collection must be zero and
// independent of the surviving window.
func gcCheck(g gcWindow, appendSample bool, key string) (fs []F) {
	fail := func(kind, format string, a ...any) {
		fs = append(fs, core.Failf(key+"/"+kind, "%s Alloc(C=%d,L=K=%d), only its window Slice(%d,%d) kept, garbage collected: %s", tn(g.t), g.sh.C, g.sh.K, g.sh.S, g.sh.E, fmt.Sprintf(format, a...)))
	}
	fw := full(g.w)
	same := func(when string) bool {
		for i, x := range g.want {
			if v := fw.Sample(i).Tok(); v != x {
				fail("window-changed", "%s: sample %d of the window's storage reads %d, was %d", when, i, v, x)
				return false
			}
		}
		return true
	}
	if !same("after the collection") {
		return
	}
	var fresh []dyn.Buf
	for k := 0; k < 6; k++ {
		n := dyn.Alloc(g.t, al(g.sh.C, g.sh.K, g.sh.K))
		fn := full(n)
		for i := 0; i < fn.Len(); i++ {
			if v := fn.Sample(i); v.B != 0 {
				fail("nonzero", "allocation %d of the same shape afterwards is not zero at sample %d (%v)", k+1, i, v)
				return
			}
		}
		fresh = append(fresh, n)
	}
	for k, n := range fresh {
		fill(full(n), int64(60+k))
		if !same(fmt.Sprintf("after stamping allocation %d made afterwards (storage shared with a live window)", k+1)) {
			return
		}
	}
	// writes through the window must not reach the new buffers
	for i := range g.want {
		g.want[i] = tk(int64(90 + i))
		fw.SetSample(i, dyn.Tok(g.t, g.want[i]))
	}
	if appendSample {
		for i := 0; i < 3; i++ {
			g.w.AppendSample(dyn.Tok(g.t, 7))
		}
	}
	for k, n := range fresh {
		fn := full(n)
		for i := 0; i < fn.Len(); i++ {
			if v := fn.Sample(i).Tok(); v != tk(int64(60+k)+int64(i)) {
				fail("shared", "writing through the surviving window changed sample %d of allocation %d made afterwards to %d", i, k+1, v)
				return
			}
		}
	}
	return
}

// gcWindowPass runs the whole pass for the given types; report gets (type, shape, failures).
func gcWindowPass(types []int, appendSample bool, key string, report func(t int, sh gcShape, fs []F)) int64 {
	var ws []gcWindow
	for _, t := range types {
		for i, sh := range gcShapes {
			ws = append(ws, gcMakeWindow(t, sh, int64(1+i)))
		}
	}
	gcCollect()
	for _, g := range ws {
		report(g.t, g.sh, gcCheck(g, appendSample, key))
	}
	return int64(len(ws))
}

// gcReplay re-executes one (type, shape) on its own.
func gcReplay(t int, sh gcShape, appendSample bool, key string) []F {
	g := gcMakeWindow(t, sh, 1)
	gcCollect()
	return gcCheck(g, appendSample, key)
}
