package props

import (
	"crypto/sha256"
	"encoding/binary"
	"encoding/json"
	"fmt"
	"sync"
	"sync/atomic"

	"verif/mc/core"
	"verif/mc/dyn"
)

// C12 — views behave exactly like Go slices under any history of operations.
// Breadth-first search over histories of the views world (world.go): a successor is
// produced by replaying the path on fresh real objects and applying one more operation;
// states are deduplicated by a canonical key of the model state.

type c12Case struct {
	T   string `json:"type"`
	C   int
	Ops []wop `json:"ops"`
}

type c12Cfg struct {
	name     string
	t        int
	C        int
	maxK     int // frames per allocation
	maxViews int
	depth    int
	canonVal bool
	sparse   bool // long buffers: a sparse alphabet of lengths and ranges
}

func c12Replay(cs c12Case, checkFrom int) (w *world, fs []F) {
	w = newWorld(typeByName(cs.T), cs.C)
	fs = w.run(cs.Ops, checkFrom)
	for i := range fs {
		fs[i].Msg = fmt.Sprintf("[%s C=%d] history %v :: %s", cs.T, cs.C, cs.Ops, fs[i].Msg)
	}
	return
}

// c12Ops is the alphabet enabled in the model state of w.
func c12Ops(w *world, cfg c12Cfg) []wop {
	var ops []wop
	nv := len(w.views)
	if nv < cfg.maxViews && cfg.sparse {
		K := cfg.maxK
		for _, lk := range [][2]int{{0, K}, {K / 2, K}, {K, K}, {1, 2}} {
			ops = append(ops, wop{K: "alloc", V: nv, A: lk[0], B: lk[1]})
		}
		for v := range w.views {
			cp := w.views[v].m.capacity()
			pts := sortedUnique([]int64{0, 1, int64(cp / 2), int64(cp - 1), int64(cp)})
			for _, s := range pts {
				for _, e := range pts {
					if s >= 0 && s <= e && int(e) <= cp {
						ops = append(ops, wop{K: "slice", V: v, A: int(s), B: int(e)})
					}
				}
			}
		}
	} else if nv < cfg.maxViews {
		for K := 0; K <= cfg.maxK; K++ {
			for L := 0; L <= K; L++ {
				ops = append(ops, wop{K: "alloc", V: nv, A: L, B: K})
			}
		}
		for v := range w.views {
			cp := w.views[v].m.capacity()
			for s := 0; s <= cp; s++ {
				for e := s; e <= cp; e++ {
					ops = append(ops, wop{K: "slice", V: v, A: s, B: e})
				}
			}
		}
	}
	for v := range w.views {
		m := w.views[v].m
		for x := range w.views {
			o := wop{K: "append", V: v, W: x}
			// growth is bounded too: the result must fit the shape alphabet
			if w.enabled(o) && m.n+w.views[x].m.n <= cfg.maxK*cfg.C*2 {
				ops = append(ops, o)
			}
		}
		ops = append(ops, wop{K: "asample", V: v})
		if m.n > 0 {
			ops = append(ops, wop{K: "stamp", V: v})
			if m.n <= 4 {
				for i := 0; i < m.n; i++ {
					ops = append(ops, wop{K: "set", V: v, A: i})
				}
			} else {
				ops = append(ops, wop{K: "set", V: v, A: 0}, wop{K: "set", V: v, A: m.n - 1})
			}
		}
	}
	return ops
}

// c12Key is the canonical key of the model state: storages renumbered by first reference
// from the ordered view list, values renumbered by first occurrence (canonVal); storages
// no view refers to cannot be observed by any future operation and are left out.
func c12Key(w *world, canonVal bool) (key, alias [16]byte) {
	var buf, abuf []byte
	ids := map[*mstore]int{}
	var order []*mstore
	for _, v := range w.views {
		id, ok := ids[v.m.st]
		if !ok {
			id = len(order)
			ids[v.m.st] = id
			order = append(order, v.m.st)
		}
		buf = append(buf, byte(id))
		buf = binary.LittleEndian.AppendUint16(buf, uint16(v.m.off))
		buf = binary.LittleEndian.AppendUint16(buf, uint16(v.m.n))
		abuf = append(abuf, byte(id))
		abuf = binary.LittleEndian.AppendUint16(abuf, uint16(v.m.off))
		abuf = binary.LittleEndian.AppendUint16(abuf, uint16(v.m.n))
		abuf = binary.LittleEndian.AppendUint16(abuf, uint16(len(v.m.st.cells)))
	}
	buf = append(buf, 0xff)
	ren := map[int64]byte{0: 0} // zero keeps its identity
	for _, st := range order {
		buf = binary.LittleEndian.AppendUint16(buf, uint16(len(st.cells)))
		for _, x := range st.cells {
			if canonVal {
				r, ok := ren[x]
				if !ok {
					r = byte(len(ren))
					ren[x] = r
				}
				buf = append(buf, r)
			} else {
				buf = binary.LittleEndian.AppendUint16(buf, uint16(x))
			}
		}
	}
	if !canonVal {
		buf = binary.LittleEndian.AppendUint16(buf, uint16(w.tok))
	}
	h := sha256.Sum256(buf)
	copy(key[:], h[:16])
	h2 := sha256.Sum256(abuf)
	copy(alias[:], h2[:16])
	return
}

type keySet struct {
	mu [64]sync.Mutex
	m  [64]map[[16]byte]struct{}
}

func newKeySet() *keySet {
	s := &keySet{}
	for i := range s.m {
		s.m[i] = map[[16]byte]struct{}{}
	}
	return s
}

func (s *keySet) add(k [16]byte) bool {
	i := k[0] & 63
	s.mu[i].Lock()
	defer s.mu[i].Unlock()
	if _, ok := s.m[i][k]; ok {
		return false
	}
	s.m[i][k] = struct{}{}
	return true
}

func (s *keySet) size() int {
	n := 0
	for i := range s.m {
		n += len(s.m[i])
	}
	return n
}

type bfsResult struct {
	states, transitions, replays int64
	depthDone                    int
	aliasPatterns                int
	levelStates                  []int
	failed                       bool
}

func c12BFS(c *core.Ctx, cfg c12Cfg) bfsResult {
	var res bfsResult
	seen, aliases := newKeySet(), newKeySet()
	frontier := [][]wop{{}}
	w0 := newWorld(cfg.t, cfg.C)
	k0, a0 := c12Key(w0, cfg.canonVal)
	seen.add(k0)
	aliases.add(a0)
	var trans, replays atomic.Int64
	var failed atomic.Bool
	for d := 1; d <= cfg.depth; d++ {
		var mu sync.Mutex
		var next [][]wop
		c.ParallelFor(len(frontier), func(i int) {
			path := frontier[i]
			cs := c12Case{T: tn(cfg.t), C: cfg.C, Ops: path}
			w, _ := c12Replay(cs, len(path)+1)
			ops := c12Ops(w, cfg)
			var local [][]wop
			for _, o := range ops {
				np := append(append(make([]wop, 0, len(path)+1), path...), o)
				ncs := c12Case{T: tn(cfg.t), C: cfg.C, Ops: np}
				w2, fs := c12Replay(ncs, len(path))
				trans.Add(1)
				replays.Add(1)
				if len(fs) > 0 {
					c.Fail(ncs, fs...)
					failed.Store(true)
					continue
				}
				k, a := c12Key(w2, cfg.canonVal)
				aliases.add(a)
				if seen.add(k) {
					local = append(local, np)
				}
			}
			mu.Lock()
			next = append(next, local...)
			mu.Unlock()
		})
		if c.CapHit() {
			break
		}
		res.depthDone = d
		res.levelStates = append(res.levelStates, len(next))
		frontier = next
		if c.WantSample() && len(next) > 0 {
			c.Sample(map[string]any{"config": cfg.name, "depth": d, "history": fmt.Sprint(next[len(next)/2])})
		}
		if len(frontier) == 0 {
			break
		}
	}
	res.states = int64(seen.size())
	res.transitions = trans.Load()
	res.replays = replays.Load()
	res.aliasPatterns = aliases.size()
	res.failed = failed.Load()
	return res
}

func init() {
	core.Register(&core.Prop{
		ID: "C12", Level: "model_checking", Design: "§5 C12",
		Run: func(c *core.Ctx) {
			var cfgs []c12Cfg
			fam := []int{dyn.Int8, dyn.Uint16, dyn.Float64}
			if c.Quick() {
				for _, t := range fam {
					cfgs = append(cfgs, c12Cfg{"small/" + tn(t) + "/C1", t, 1, 2, 4, 5, true, false})
					cfgs = append(cfgs, c12Cfg{"small/" + tn(t) + "/C2", t, 2, 2, 4, 5, true, false})
				}
				for t := 0; t < dyn.NB; t++ {
					cfgs = append(cfgs, c12Cfg{"all-types/" + tn(t) + "/C2", t, 2, 2, 3, 3, true, false})
				}
				cfgs = append(cfgs, c12Cfg{"full/int16/C3", dyn.Int16, 3, 4, 6, 3, true, false})
				cfgs = append(cfgs, c12Cfg{"long/float32/C2 (40 frames, sparse ranges)", dyn.Float32, 2, 40, 4, 4, true, true})
			} else {
				for _, t := range fam {
					cfgs = append(cfgs, c12Cfg{"small/" + tn(t) + "/C1", t, 1, 2, 4, 6, true, false})
					cfgs = append(cfgs, c12Cfg{"small/" + tn(t) + "/C2", t, 2, 2, 4, 6, true, false})
				}
				for t := 0; t < dyn.NB; t++ {
					cfgs = append(cfgs, c12Cfg{"all-types/" + tn(t) + "/C2", t, 2, 2, 4, 4, true, false})
				}
				cfgs = append(cfgs, c12Cfg{"c1-deep/int8", dyn.Int8, 1, 2, 3, 7, true, false})
				for C := 1; C <= 3; C++ {
					cfgs = append(cfgs, c12Cfg{fmt.Sprintf("full/int16/C%d", C), dyn.Int16, C, 4, 6, 4, true, false})
				}
				cfgs = append(cfgs, c12Cfg{"long/float32/C2 (40 frames, sparse ranges)", dyn.Float32, 2, 40, 4, 5, true, true})
				cfgs = append(cfgs, c12Cfg{"long/int8/C3 (300 frames, sparse ranges)", dyn.Int8, 3, 300, 4, 4, true, true})
			}
			var states, trans, replays int64
			var report []map[string]any
			for _, cfg := range cfgs {
				if c.Expired() {
					break
				}
				r := c12BFS(c, cfg)
				states += r.states
				trans += r.transitions
				replays += r.replays
				report = append(report, map[string]any{"config": cfg.name, "channels": cfg.C, "max_frames": cfg.maxK, "max_views": cfg.maxViews,
					"depth_requested": cfg.depth, "depth_completed": r.depthDone, "states": r.states, "transitions": r.transitions,
					"new_states_per_level": r.levelStates, "distinct_aliasing_patterns": r.aliasPatterns})
			}
			// data-independence re-check: the lowest levels again without value canonicalisation
			q := c12BFS(c, c12Cfg{"recheck-canon", dyn.Int16, 2, 2, 3, 3, true, false})
			raw := c12BFS(c, c12Cfg{"recheck-raw", dyn.Int16, 2, 2, 3, 3, false, false})
			if q.failed != raw.failed || q.states > raw.states || q.depthDone != raw.depthDone {
				if !c.CapHit() {
					c.InternalError("value canonicalisation re-check failed: quotient %d states (failed=%v), raw %d states (failed=%v)", q.states, q.failed, raw.states, raw.failed)
				}
			}
			c.Set("states", states)
			c.Set("transitions", trans)
			c.Set("traces_validated_against_impl", replays)
			c.Set("evaluations", trans)
			c.Set("configs", report)
			c.Set("canonicalisation_recheck", map[string]any{"quotient_states": q.states, "raw_states": raw.states})
			c.Set("rule", "breadth-first search over histories of {alloc(L,K), slice(v,s,e) for every valid range of every live view, append(v,w) for every ordered pair incl. v=w (frame-aligned, not overwriting its own source), appendSample(v), write(v) of fresh tokens, set(v,i)}; each transition replays the path on fresh real buffers, applies the operation to implementation and model and compares every live view (shape and every sample over its capacity) and every storage; states deduplicated by a canonical key of the model state; distinct_nontrivial = states")
			c.Set("distinct_nontrivial", states)
			c.Assume("values are tokens; value canonicalisation is sound because the alphabet is data-independent (re-checked on the low levels without it)", "capacity after a growing append is an environment answer", "Append onto a destination with a partly filled last frame is outside the domain of every listed property and not in the alphabet")
		},
		RunCase: func(c *core.Ctx, raw json.RawMessage) []F {
			_, fs := c12Replay(decode[c12Case](raw), 0)
			return fs
		},
	})
}
