//go:build verif

package props

import (
	vs "pipelined.dev/signal/verifsync"
	"verif/mc/core"
)

// A panic in a goroutine that the library started itself, outside any explorer (the overlay routes the
// library's go statements through the shim), would end the check process without a verdict: it is
// recorded as a violation instead (core.LibraryGoroutinePanic).
func init() {
	vs.OnGoroutinePanic = func(msg, stack string) {
		if c := core.Current; c != nil {
			c.LibraryGoroutinePanic(msg, stack)
			return
		}
		panic(msg) // worker process: no context to report to
	}
}
