package props

import (
	"fmt"
	"math/big"

	"verif/mc/dyn"
)

// The views model: a storage is a plain slice of tokens, a view is (storage, offset,
// length); its capacity reaches the end of the storage, exactly as for a two-index Go
// reslice.  Nothing here is derived from the library's code.

type mstore struct {
	cells []int64
}

type mview struct {
	st   *mstore
	off  int
	n    int // total length in samples
	ch   int
	bits int
}

func (v mview) capTotal() int { return len(v.st.cells) - v.off }
func (v mview) length() int   { return ceilDiv(v.n, v.ch) }
func (v mview) capacity() int {
	if v.ch == 0 {
		return 0
	}
	return v.capTotal() / v.ch
}
func (v mview) header() header {
	return header{v.ch, v.bits, v.n, v.capTotal(), v.length(), v.capacity()}
}
func (v mview) get(i int) int64    { return v.st.cells[v.off+i] }
func (v mview) set(i int, x int64) { v.st.cells[v.off+i] = x }

// slice applies Go's rule, evaluated in unbounded integers: a view iff 0 <= s <= e <= capacity.
func (v mview) slice(s, e int) (mview, bool) {
	bs, be, bc := big.NewInt(int64(s)), big.NewInt(int64(e)), big.NewInt(int64(v.capacity()))
	if bs.Sign() < 0 || bs.Cmp(be) > 0 || be.Cmp(bc) > 0 {
		return mview{}, false
	}
	return mview{st: v.st, off: v.off + v.ch*s, n: v.ch * (e - s), ch: v.ch, bits: v.bits}, true
}

func newStore(n int) *mstore { return &mstore{cells: make([]int64, n)} }

// cmpView compares everything observable of b with the model view; "" when equal.
// The samples are compared over the length directly and over the rest of the capacity
// through a full-capacity reslice.
func cmpView(b dyn.Buf, v mview) string {
	if h, w := hdr(b), v.header(); h != w {
		return fmt.Sprintf("shape %+v, model %+v", h, w)
	}
	for i := 0; i < v.n; i++ {
		if g := b.Sample(i).Tok(); g != v.get(i) {
			return fmt.Sprintf("sample %d reads %d, model %d", i, g, v.get(i))
		}
	}
	if v.ch > 0 && v.capTotal() > v.n {
		fb := b.Slice(0, v.capacity())
		if fb.Len() != v.capacity()*v.ch {
			return fmt.Sprintf("full-capacity reslice has Len %d, model %d", fb.Len(), v.capacity()*v.ch)
		}
		for i := v.n; i < fb.Len(); i++ {
			if g := fb.Sample(i).Tok(); g != v.get(i) {
				return fmt.Sprintf("sample %d (beyond the length, inside the capacity) reads %d, model %d", i, g, v.get(i))
			}
		}
	}
	return ""
}

// cmpStore compares the storage seen through obs (a full-length view of all of it).
func cmpStore(obs dyn.Buf, st *mstore) string {
	if obs.Len() != len(st.cells) {
		return fmt.Sprintf("observer has Len %d, model storage %d", obs.Len(), len(st.cells))
	}
	for i, w := range st.cells {
		if g := obs.Sample(i).Tok(); g != w {
			return fmt.Sprintf("storage position %d reads %d, model %d", i, g, w)
		}
	}
	return ""
}
