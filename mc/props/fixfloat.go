package props

import (
	"encoding/json"
	"fmt"
	"math"
	"math/big"
	"sync/atomic"

	"verif/mc/core"
	"verif/mc/dyn"
)

// C09 — fixed-to-floating conversion normalises into [-1,1] without losing information
// (SignedAsFloat / UnsignedAsFloat, 22 instantiations, and their compositions with
// FloatAsSigned / FloatAsUnsigned).

type c09Case struct {
	S, D string
	Amps []int64 // source amplitudes (one, or lower+higher)
	Ch   []int   // channel count of the buffers each value went through
	Pos  []int   // interleaved position of each value inside its block
	Len  []int   // length of that block
}

func ulpOf(v float64, f32 bool) float64 {
	if f32 {
		x := float32(math.Abs(v))
		return float64(math.Nextafter32(x, float32(math.Inf(1))) - x)
	}
	x := math.Abs(v)
	return math.Nextafter(x, math.Inf(1)) - x
}

// c09Point judges value v (already widened to float64) for source amplitude a of depth bs.
func c09Point(bs int, f32 bool, a int64, v float64, signedSrc bool) (kind, msg string) {
	if math.IsNaN(v) || v < -1 || v > 1 {
		return "range", fmt.Sprintf("amplitude %d gives %v, outside [-1,1]", a, v)
	}
	switch {
	case a == minAmp(bs) && v != -1:
		return "lowest", fmt.Sprintf("lowest code (amplitude %d) gives %v, want -1", a, v)
	case a == maxAmp(bs) && v != 1:
		return "highest", fmt.Sprintf("highest code (amplitude %d) gives %v, want 1", a, v)
	case a == 0 && v != 0:
		return "zero", fmt.Sprintf("zero-amplitude code gives %v, want 0", v)
	}
	// |v - a/FS| <= 2^-(bs-1) + float rounding, FS either 2^(bs-1) or 2^(bs-1)-1 (weakest
	// reading).  "Float rounding" is read as rounding relative to full scale 1.0 (4 eps of
	// the destination float type, + 1 eps for the oracle's own division): converting the
	// integer code to the float type before subtracting the offset and dividing -- the
	// obvious implementation -- already costs eps relative to full scale.
	eps := math.Ldexp(1, -52)
	if f32 {
		eps = math.Ldexp(1, -23)
	}
	tol := math.Ldexp(1, -(bs-1)) + 5*eps
	if signedSrc {
		// a signed code is its own amplitude: no offset is subtracted, so the float rounding of the
		// conversion and of the division is relative to the result, not to full scale (quiet samples of a
		// deep format must not vanish in a shallow float)
		tol = math.Ldexp(1, -(bs-1)) + 5*eps*math.Abs(float64(a))/math.Ldexp(1, bs-1)
	}
	ok := false
	if bs <= 32 {
		for _, fsv := range []float64{math.Ldexp(1, bs-1), math.Ldexp(1, bs-1) - 1} {
			if math.Abs(v-float64(a)/fsv) <= tol {
				ok = true
			}
		}
	} else {
		bv := new(big.Float).SetPrec(200).SetFloat64(v)
		for _, off := range []int64{0, 1} {
			fs := new(big.Float).SetPrec(200).SetInt(new(big.Int).Sub(new(big.Int).Lsh(big.NewInt(1), uint(bs-1)), big.NewInt(off)))
			q := new(big.Float).SetPrec(200).Quo(new(big.Float).SetPrec(200).SetInt64(a), fs)
			d := new(big.Float).SetPrec(200).Sub(bv, q)
			d.Abs(d)
			if d.Cmp(new(big.Float).SetFloat64(tol)) <= 0 {
				ok = true
			}
		}
	}
	if !ok {
		return "accuracy", fmt.Sprintf("amplitude %d of %d bits gives %v, more than one step (2^-%d) from amplitude/full scale", a, bs, v, bs-1)
	}
	return "", ""
}

func c09Code(k dyn.Kind, bits int, a int64) int64 { return int64(ampToRaw(k, bits, a)) }

func c09EvalCase(cs c09Case) (fs []F) {
	s, d := typeByName(cs.S), typeByName(cs.D)
	ts := dyn.Types[s]
	n := len(cs.Amps)
	vals := make([]uint64, n)
	for i, a := range cs.Amps {
		vals[i] = ampToRaw(ts.Kind, ts.Bits, a)
	}
	f32 := isF32(d)
	doBack := (ts.Bits <= 32 && !f32) || (ts.Bits <= 16 && f32)
	out, out2 := evalAt(s, d, vals, cs.Pos, cs.Len, cs.Ch, doBack)
	name := dyn.ConvName(s, d) + "/" + cs.S + "->" + cs.D
	mk := func(kind string, a int64, msg string) F {
		return F{Key: name + "/" + kind, Code: c09Code(ts.Kind, ts.Bits, a), HasCode: true, Msg: fmt.Sprintf("%s (code %d): %s", name, c09Code(ts.Kind, ts.Bits, a), msg)}
	}
	var vs []float64
	for i, a := range cs.Amps {
		v := math.Float64frombits(out[i])
		vs = append(vs, v)
		if kind, msg := c09Point(ts.Bits, f32, a, v, ts.Kind == dyn.Signed); kind != "" {
			fs = append(fs, mk(kind, a, msg))
		}
	}
	if n == 2 && cs.Amps[0] < cs.Amps[1] {
		if vs[0] > vs[1] {
			fs = append(fs, mk("order", cs.Amps[1], fmt.Sprintf("amplitude %d -> %v but the larger amplitude %d -> %v", cs.Amps[0], vs[0], cs.Amps[1], vs[1])))
		} else if vs[0] == vs[1] && ts.Bits <= 32 && !f32 {
			fs = append(fs, mk("injective", cs.Amps[1], fmt.Sprintf("distinct amplitudes %d and %d both give float64 %v", cs.Amps[0], cs.Amps[1], vs[0])))
		}
	}
	// round trip through the matching float->fixed conversion
	if doBack {
		for i, a := range cs.Amps {
			g := rawToAmp(ts.Kind, ts.Bits, out2[i])
			if !f32 && g != a {
				fs = append(fs, mk("roundtrip", a, fmt.Sprintf("amplitude %d -> %v -> %s -> amplitude %d (code %d)", a, vs[i], dyn.ConvName(d, s), g, c09Code(ts.Kind, ts.Bits, g))))
			}
			if f32 && (g < a-1 || g > a+1) {
				fs = append(fs, mk("roundtrip32", a, fmt.Sprintf("amplitude %d -> %v (float32) -> %s -> amplitude %d, more than one step", a, vs[i], dyn.ConvName(d, s), g)))
			}
		}
	}
	return
}

func c09Run(c *core.Ctx) {
	var evals, distinct atomic.Int64
	inst, exh := 0, 0
	// first use of every instantiation: sequentially, in a fixed order, before anything else converts
	fixedToFloat := func(s, d int) bool { return dyn.Types[s].Kind != dyn.Float && dyn.Types[d].Kind == dyn.Float }
	digests := ctxDigests(fixedToFloat)
	for s := 0; s < dyn.NB; s++ {
		for _, d := range []int{dyn.Float32, dyn.Float64} {
			ts, td := dyn.Types[s], dyn.Types[d]
			if ts.Kind == dyn.Float {
				continue
			}
			_ = td
			inst++
			name := dyn.ConvName(s, d) + "/" + ts.Name + "->" + td.Name
			f32 := isF32(d)
			strict := ts.Bits <= 32 && !f32
			roundtrip := (ts.Bits <= 32 && !f32) || (ts.Bits <= 16 && f32)
			type dom struct {
				name   string
				gen    seqGen
				shards int
				exh    bool
			}
			var dm dom
			switch {
			case ts.Bits == 8:
				dm = dom{"all (each value 67x: long buffers)", genRepeat(minAmp(8), maxAmp(8), 67), 1, true}
			case ts.Bits <= 16:
				dm = dom{"all", genRange(minAmp(ts.Bits), maxAmp(ts.Bits)), 1, true}
			case ts.Bits == 32 && !c.Quick():
				dm = dom{"all", genRange(minAmp(32), maxAmp(32)), 64, true}
			case ts.Bits == 32:
				// alphabet plus the first 70000 codes from both ends and around zero (dense at the edges)
				xs := boundaryAlphabet(32)
				for i := int64(0); i < 70000; i++ {
					xs = append(xs, minAmp(32)+i, maxAmp(32)-i, i, -i)
				}
				dm = dom{"boundary alphabet + 70000 values at each end and each side of zero", genList(sortedUnique(xs)), 4, false}
			default:
				xs := boundaryAlphabet(64)
				for i := int64(0); i < 70000; i++ {
					xs = append(xs, minAmp(64)+i, maxAmp(64)-i, i, -i)
				}
				dm = dom{"boundary alphabet + 70000 values at each end and each side of zero", genList(sortedUnique(xs)), 4, false}
			}
			// second sequence for non-exhaustive domains: an arithmetic lattice across the whole range
			var lattice seqGen
			if !dm.exh {
				nl := int64(1) << 18
				if !c.Quick() {
					nl = 1 << 24
				}
				lattice = genLattice(ts.Bits, nl)
			}
			nfail := newFailCap(2000)
			report := func(p sweepPos, kind string, amps ...int64) {
				chs, pos, lens := posOf(p, false)
				cs := c09Case{ts.Name, td.Name, amps, chs, pos, lens}
				fs := c09EvalCase(cs)
				if len(fs) == 0 {
					fs = []F{histDep(name, fmt.Sprintf("%s: failure %s at amplitude %v (channels %d, position %d) seen in the sweep does not reproduce in isolation", name, kind, amps, p.Ch, p.Idx))}
				}
				c.Fail(cs, fs...)
			}
			newEval := func(ch int) func(in, out []int64) {
				fwd := dyn.ConvBlockCh(s, d, blockN, ch)
				var back func(in, out []uint64)
				if roundtrip {
					back = dyn.ConvBlockCh(d, s, blockN, ch)
				}
				rin := make([]uint64, blockN)
				rout := make([]uint64, blockN)
				rback := make([]uint64, blockN)
				return func(in, out []int64) {
					n := len(in)
					for i, a := range in {
						rin[i] = ampToRaw(ts.Kind, ts.Bits, a)
					}
					fwd(rin[:n], rout[:n])
					for i := 0; i < n; i++ {
						out[i] = fkey(math.Float64frombits(rout[i]))
						if math.IsNaN(math.Float64frombits(rout[i])) {
							out[i] = math.MaxInt64
						}
					}
					if roundtrip {
						back(rout[:n], rback[:n])
						for i, a := range in {
							g := rawToAmp(ts.Kind, ts.Bits, rback[i])
							bad := g != a
							if f32 {
								bad = g < a-1 || g > a+1
							}
							if bad && nfail.ok("roundtrip") {
								report(sweepPos{ch, i, 0, n, 0, ch}, "roundtrip", a)
							}
						}
					}
				}
			}
			point := func(p sweepPos, a, k int64) {
				v := fromKey(k)
				if k == math.MaxInt64 {
					v = math.NaN()
				}
				if kind, _ := c09Point(ts.Bits, f32, a, v, ts.Kind == dyn.Signed); kind != "" && nfail.ok(kind) {
					report(p, kind, a)
				}
			}
			orderFail := func(p sweepPos, pa, po, a, o int64) {
				if nfail.ok("order") {
					chs, pos, lens := posOf(p, true)
					cs := c09Case{ts.Name, td.Name, []int64{pa, a}, chs, pos, lens}
					fs := c09EvalCase(cs)
					found := false
					for _, f := range fs {
						if f.Key == name+"/order" || f.Key == name+"/injective" {
							found = true
						}
					}
					if !found {
						fs = append(fs, histDep(name, fmt.Sprintf("%s: order/injectivity violation seen in the sweep (amplitudes %d, %d) does not reproduce in isolation", name, pa, a)))
					}
					c.Fail(cs, fs...)
				}
			}
			var n int64
			if dm.shards == 1 {
				for _, ch := range []int{1, 2, 3} {
					n = runSeqStrict(c, dm.gen, 1, []int{ch}, strict, newEval, point, orderFail)
					evals.Add(n)
				}
			} else {
				n = runSeqStrict(c, dm.gen, dm.shards, []int{2, 1, 3}, strict, newEval, point, orderFail)
				evals.Add(n)
			}
			if ts.Bits == 8 {
				n /= 67
			}
			distinct.Add(n)
			if lattice != nil {
				evals.Add(runSeqStrict(c, lattice, 16, []int{2, 1, 3}, strict, newEval, point, orderFail))
			}
			if dm.exh {
				exh++
			}
			if c.WantSample() {
				c.Sample(map[string]any{"instantiation": name, "domain": dm.name, "values": n, "roundtrip_checked": roundtrip, "strictly_increasing_required": strict})
			}
		}
	}
	c.Set("evaluations", evals.Load())
	c.Set("distinct_nontrivial", distinct.Load())
	c09Judge := func(s, d int, in, out uint64) (string, string) {
		ts := dyn.Types[s]
		return c09Point(ts.Bits, isF32(d), rawToAmp(ts.Kind, ts.Bits, in), math.Float64frombits(out), ts.Kind == dyn.Signed)
	}
	wait := c.ReverseOrderPassAsync("mc-shim") // a process of its own, meanwhile
	ctxPasses(c, "C09", c09Judge, false, fixedToFloat)
	c.Set("ctx_digests", digests)
	c.Set("evaluations", evals.Load()+c.CtxEvals())
	wait()
	c.Set("instantiations", inst)
	c.Set("instantiations_with_exhaustive_source_domain", exh)
	c.Set("exhaustive", exh == inst)
	c.Set("rule", "22 instantiations through the real conversion on real buffers with 1, 2 and 3 channels in blocks (destination pre-filled with garbage), amplitudes ascending (order / strict order is a streaming check); 8/16-bit sources: every value; 32-bit: quick = boundary alphabet + 70000 values at each end and around zero, thorough = every value; 64-bit: boundary alphabet + the same edge runs; non-exhaustive domains additionally an arithmetic lattice of 2^18 (thorough 2^24) values with an odd step across the whole range; the round trip composes with the real FloatAsSigned/FloatAsUnsigned; distinct_nontrivial = source values (distinct by construction), each judged for range, reference levels, accuracy, order and round trip")
	c.Assume("64-bit sources are covered by a finite alphabet only", "accuracy tolerance: one source step + 5 eps of the destination float type, relative to full scale 1.0 for unsigned sources (float rounding of code, offset subtraction and division) and relative to the result for signed sources (no offset is subtracted)", "linux/amd64")
}

func init() {
	core.Register(&core.Prop{
		ID: "C09", Level: "exploration", Design: "§5 C09",
		Run:    c09Run,
		Worker: core.SweepWorker,
		RunCase: func(c *core.Ctx, raw json.RawMessage) []F {
			if isCtxCase(raw) {
				return ctxReplay(c, raw, func(s, d int, in, out uint64) (string, string) {
					ts := dyn.Types[s]
					return c09Point(ts.Bits, isF32(d), rawToAmp(ts.Kind, ts.Bits, in), math.Float64frombits(out), ts.Kind == dyn.Signed)
				}, false)
			}
			return c09EvalCase(decode[c09Case](raw))
		},
	})
}
