package schedx

import (
	"fmt"
	"runtime"
)

// indep: two threads with a and b points each, touching nothing shared.
type indep struct{ a, b int }

func (h *indep) Threads() int { return 2 }
func (h *indep) Init()        {}
func (h *indep) Run(id int) {
	n := h.a
	if id == 1 {
		n = h.b
	}
	for i := 0; i < n; i++ {
		Point("step")
	}
}
func (h *indep) Finish() []string    { return nil }
func (h *indep) Key() (uint64, bool) { return 0, false }

// lostUpdate: two threads doing tmp := x; point; x = tmp + 1 (the accesses are made in
// norace helpers: this self-test is about the scheduler, not the monitor).
type lostUpdate struct {
	x   int
	tmp [2]int // thread-local values are part of the state key
}

//go:norace
func (h *lostUpdate) load() int { return h.x }

//go:norace
func (h *lostUpdate) store(v int) { h.x = v }

func (h *lostUpdate) Threads() int { return 2 }
func (h *lostUpdate) Init()        { h.store(0); h.setTmp(0, 0); h.setTmp(1, 0) }
func (h *lostUpdate) Run(id int) {
	Point("read")
	h.setTmp(id, h.load())
	Point("write")
	h.store(h.getTmp(id) + 1)
}
func (h *lostUpdate) Finish() []string {
	if h.load() != 2 {
		return []string{fmt.Sprintf("lost update: x = %d", h.load())}
	}
	return nil
}
func (h *lostUpdate) Key() (uint64, bool) {
	return uint64(h.load())<<16 | uint64(h.getTmp(0))<<8 | uint64(h.getTmp(1)), true
}

//go:norace
func (h *lostUpdate) setTmp(id, v int) { h.tmp[id] = v }

//go:norace
func (h *lostUpdate) getTmp(id int) int { return h.tmp[id] }

// forkJoin: thread 0 starts two further threads with Spawn (what a rewritten go statement
// does), optionally waits for them with WaitZero (what WaitGroup.Wait does), then reads what
// they wrote.  mode 2 never counts the children down: the wait can never end.
type forkJoin struct {
	mode int // 0: no wait, 1: wait, 2: wait for ever
	word int32
	res  [2]int
	seen int
}

//go:norace
func (h *forkJoin) add(d int32) { h.word += d }

//go:norace
func (h *forkJoin) set(k int) { h.res[k] = 1 }

//go:norace
func (h *forkJoin) sum() int { return h.res[0] + h.res[1] }

//go:norace
func (h *forkJoin) setSeen(v int) { h.seen = v }

//go:norace
func (h *forkJoin) getSeen() int { return h.seen }

func (h *forkJoin) Threads() int { return 1 }
func (h *forkJoin) Init()        { *h = forkJoin{mode: h.mode} }
func (h *forkJoin) Run(id int) {
	for k := 0; k < 2; k++ {
		k := k
		h.add(1)
		if !Spawn(func() {
			Point("child")
			h.set(k)
			if h.mode != 2 {
				h.add(-1)
			}
		}) {
			panic("Spawn refused")
		}
	}
	if h.mode != 0 {
		WaitZero(&h.word, "wait")
	}
	h.setSeen(h.sum())
}
func (h *forkJoin) Finish() []string {
	if h.getSeen() != 2 {
		return []string{fmt.Sprintf("parent saw %d of 2 results", h.getSeen())}
	}
	return nil
}
func (h *forkJoin) Key() (uint64, bool) { return 0, false }

func selfTestSpawn() error {
	if NoGo {
		return nil
	}
	run := func(mode, bound int) (bad, dead, execs int64, threads int, err error) {
		e := &Explorer{H: &forkJoin{mode: mode}, Bound: bound}
		e.OnExec = func(x *Execution) {
			if len(x.Failures) > 0 {
				bad++
			}
			if x.Deadlock {
				dead++
			}
			threads = x.Threads
		}
		err = e.Explore()
		return bad, dead, e.Executions, threads, err
	}
	// joined: no schedule lets the parent see a partial result
	bad, dead, n1, th, err := run(1, -1)
	if err != nil || bad != 0 || dead != 0 || th != 3 || n1 < 10 {
		return fmt.Errorf("fork/join with wait: %d failing, %d deadlocked of %d executions, %d threads, err %v", bad, dead, n1, th, err)
	}
	if _, _, n2, _, _ := run(1, -1); n2 != n1 {
		return fmt.Errorf("fork/join: %d executions, then %d", n1, n2)
	}
	// not joined: already the non-preemptive schedules show the partial result; other schedules do not
	bad, _, n, _, err := run(0, 0)
	if err != nil || bad == 0 {
		return fmt.Errorf("fork without join must fail at bound 0 (%d of %d, err %v)", bad, n, err)
	}
	bad, _, n, _, err = run(0, -1)
	if err != nil || bad == 0 || bad == n {
		return fmt.Errorf("fork without join, unbounded: %d of %d executions fail (err %v)", bad, n, err)
	}
	// a wait that cannot end is a deadlock in every schedule
	bad, dead, n, _, err = run(2, -1)
	if err != nil || dead != n || bad != n {
		return fmt.Errorf("endless wait: %d deadlocks, %d failures in %d executions (err %v)", dead, bad, n, err)
	}
	return nil
}

func binom(n, k int) int64 {
	r := int64(1)
	for i := 1; i <= k; i++ {
		r = r * int64(n-k+i) / int64(i)
	}
	return r
}

// SelfTest checks the explorer against known counts.
func SelfTest() error {
	old := runtime.GOMAXPROCS(1)
	defer runtime.GOMAXPROCS(old)
	for _, ab := range [][2]int{{1, 1}, {2, 2}, {3, 2}, {4, 4}} {
		e := &Explorer{H: &indep{ab[0], ab[1]}, Bound: -1}
		if err := e.Explore(); err != nil {
			return err
		}
		// a thread with k points has k+1 segments
		want := binom(ab[0]+ab[1]+2, ab[0]+1)
		if e.Executions != want {
			return fmt.Errorf("indep(%d,%d): %d executions, want %d", ab[0], ab[1], e.Executions, want)
		}
	}
	// preemption bound 0: only non-preemptive schedules: 2 (which thread first)
	e := &Explorer{H: &indep{3, 3}, Bound: 0}
	if err := e.Explore(); err != nil {
		return err
	}
	if e.Executions != 2 {
		return fmt.Errorf("indep(3,3) bound 0: %d executions, want 2", e.Executions)
	}
	found := func(bound int, prune bool) (int64, int64, error) {
		var bad int64
		e := &Explorer{H: &lostUpdate{}, Bound: bound, Prune: prune}
		e.OnExec = func(x *Execution) { bad += int64(len(x.Failures)) }
		err := e.Explore()
		return bad, e.Executions, err
	}
	if b, _, err := found(0, false); err != nil || b != 0 {
		return fmt.Errorf("lost update must not be found at bound 0 (found %d, err %v)", b, err)
	}
	if b, _, err := found(1, false); err != nil || b == 0 {
		return fmt.Errorf("lost update must be found at bound 1 (err %v)", err)
	}
	b1, n1, err := found(-1, false)
	if err != nil || b1 == 0 {
		return fmt.Errorf("lost update must be found unbounded (err %v)", err)
	}
	b2, n2, err := found(-1, true)
	if err != nil || b2 == 0 || n2 > n1 {
		return fmt.Errorf("lost update must be found with state pruning too (found %d in %d executions vs %d, err %v)", b2, n2, n1, err)
	}
	// replay determinism: the same prefix gives the same record twice
	ex := &Explorer{H: &lostUpdate{}, Bound: -1}
	x1, _ := ex.Run([]int{1, 0, 1})
	x2, _ := ex.Run([]int{1, 0, 1})
	if fmt.Sprint(x1.Choices, x1.Failures) != fmt.Sprint(x2.Choices, x2.Failures) {
		return fmt.Errorf("replay not deterministic: %v vs %v", x1, x2)
	}
	if _, err := ex.Run([]int{5}); err == nil {
		return fmt.Errorf("an out-of-range replayed choice must be a hard error")
	}
	return selfTestSpawn()
}
