//go:build verif

// Package verifsync is a drop-in replacement for the parts of package sync that
// pipelined.dev/signal uses.  It is injected by `go build -overlay` (see
// /verif/mc/overlaytool): the import "sync" of every non-test file of /repo is
// rewritten to this package, and this file is mapped to /repo/verifsync/vsync.go.
// /repo is never modified on disk.
//
// Pool has the surface of sync.Pool.  When a Controller is attached (either the
// process-wide Global one, used by the schedule explorer, or one bound to the calling
// goroutine, used by the parallel sequence explorer) every Get and Put is delegated to it,
// so that which item a Get returns is a choice of the explorer; otherwise the calls pass
// through to a real sync.Pool.
//
// Mutex / RWMutex are controlled in the same way so that a tree that adds a lock cannot
// hang the cooperative scheduler; without a controller they are the real thing.
package verifsync

import (
	"runtime"
	"sync"
	"sync/atomic"
)

type (
	WaitGroup = sync.WaitGroup
	Once      = sync.Once
	Map       = sync.Map
	Cond      = sync.Cond
	Locker    = sync.Locker
)

func NewCond(l Locker) *Cond { return sync.NewCond(l) }

func OnceFunc(f func()) func() { return sync.OnceFunc(f) }

func OnceValue[T any](f func() T) func() T { return sync.OnceValue(f) }

func OnceValues[T1, T2 any](f func() (T1, T2)) func() (T1, T2) { return sync.OnceValues(f) }

// Controller decides the answers of the environment.
type Controller interface {
	// PoolGet returns (item, true) to hand out a pooled item or (nil, false) to make the
	// pool call New (or return nil when New is nil).
	PoolGet(p *Pool) (any, bool)
	PoolPut(p *Pool, x any)
	// Lock blocks (in the scheduler's sense) until the lock is free.
	Lock(m *Mutex)
	Unlock(m *Mutex)
}

// Global, when non-nil, controls every Pool and Mutex of the process.
var Global Controller

var (
	bound  sync.Map // goroutine id -> Controller
	nBound atomic.Int64
)

// Bind attaches c to the calling goroutine until Unbind.
func Bind(c Controller) {
	bound.Store(goid(), c)
	nBound.Add(1)
}

// Unbind detaches the calling goroutine's controller.
func Unbind() {
	bound.Delete(goid())
	nBound.Add(-1)
}

func current() Controller {
	if g := Global; g != nil {
		return g
	}
	if nBound.Load() == 0 {
		return nil
	}
	if c, ok := bound.Load(goid()); ok {
		return c.(Controller)
	}
	return nil
}

func goid() uint64 {
	var buf [64]byte
	n := runtime.Stack(buf[:], false)
	// "goroutine 123 ["
	var id uint64
	for i := len("goroutine "); i < n; i++ {
		c := buf[i]
		if c < '0' || c > '9' {
			break
		}
		id = id*10 + uint64(c-'0')
	}
	return id
}

// Pool mirrors sync.Pool.
type Pool struct {
	New func() any

	once sync.Once
	real sync.Pool
}

func (p *Pool) Get() any {
	if c := current(); c != nil {
		if x, ok := c.PoolGet(p); ok {
			return x
		}
		if p.New != nil {
			return p.New()
		}
		return nil
	}
	p.once.Do(func() { p.real.New = p.New })
	return p.real.Get()
}

func (p *Pool) Put(x any) {
	if x == nil {
		return
	}
	if c := current(); c != nil {
		c.PoolPut(p, x)
		return
	}
	p.once.Do(func() { p.real.New = p.New })
	p.real.Put(x)
}

// Mutex mirrors sync.Mutex.
type Mutex struct {
	real sync.Mutex
	// Held is owned by the controller.
	Held int32
}

func (m *Mutex) Lock() {
	if c := current(); c != nil {
		c.Lock(m)
		m.real.Lock() // never blocks: the controller granted exclusivity; keeps the race detector's happens-before edges
		return
	}
	m.real.Lock()
}

func (m *Mutex) TryLock() bool {
	return m.real.TryLock()
}

func (m *Mutex) Unlock() {
	if c := current(); c != nil {
		m.real.Unlock()
		c.Unlock(m)
		return
	}
	m.real.Unlock()
}

// RWMutex is modelled as an exclusive lock under a controller (a sound restriction of
// the schedules a reader/writer lock admits: every exclusive schedule is also a
// reader/writer schedule).
type RWMutex struct {
	m Mutex
}

func (rw *RWMutex) Lock()          { rw.m.Lock() }
func (rw *RWMutex) Unlock()        { rw.m.Unlock() }
func (rw *RWMutex) RLock()         { rw.m.Lock() }
func (rw *RWMutex) RUnlock()       { rw.m.Unlock() }
func (rw *RWMutex) TryLock() bool  { return rw.m.TryLock() }
func (rw *RWMutex) TryRLock() bool { return rw.m.TryLock() }
func (rw *RWMutex) RLocker() Locker {
	return (*rlocker)(rw)
}

type rlocker RWMutex

func (r *rlocker) Lock()   { (*RWMutex)(r).RLock() }
func (r *rlocker) Unlock() { (*RWMutex)(r).RUnlock() }
