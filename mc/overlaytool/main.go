// overlaytool writes a `go build -overlay` file that compiles the *current* working tree
// of /repo with package sync replaced by the controlled shim (verif/mc/shim), without
// touching /repo on disk.
//
//	overlaytool -repo /repo -shim /verif/mc/shim/vsync.go -out /verif/.build
package main

import (
	"bytes"
	"encoding/json"
	"flag"
	"fmt"
	"go/ast"
	"go/format"
	"go/parser"
	"go/token"
	"io/fs"
	"os"
	"path/filepath"
	"strconv"
	"strings"
)

func main() {
	repo := flag.String("repo", "/repo", "repository root")
	shim := flag.String("shim", "/verif/mc/shim/vsync.go", "shim source")
	shimAtomic := flag.String("shimatomic", "/verif/mc/shimatomic/vatomic.go", "sync/atomic shim source")
	out := flag.String("out", "/verif/.build", "output directory")
	goMode := flag.String("go", "all", "which go statements become explorer threads: all, lit (function literals only), off")
	flag.Parse()

	modPath := modulePath(filepath.Join(*repo, "go.mod"))
	shimImport := modPath + "/verifsync"
	atomicImport := modPath + "/verifatomic"
	replace := map[string]string{}
	ovDir := filepath.Join(*out, "overlay")
	os.RemoveAll(ovDir)
	must(os.MkdirAll(ovDir, 0o755))

	rewritten := 0
	err := filepath.WalkDir(*repo, func(path string, d fs.DirEntry, err error) error {
		if err != nil {
			return err
		}
		name := d.Name()
		if d.IsDir() {
			if path != *repo && (strings.HasPrefix(name, ".") || name == "testdata" || name == "vendor" || name == "verifsync" || name == "verifatomic") {
				return filepath.SkipDir
			}
			return nil
		}
		if !strings.HasSuffix(name, ".go") || strings.HasSuffix(name, "_test.go") {
			return nil
		}
		fset := token.NewFileSet()
		f, err := parser.ParseFile(fset, path, nil, parser.ParseComments)
		if err != nil {
			// let the compiler report it
			return nil
		}
		changed := false
		for _, imp := range f.Imports {
			p, _ := strconv.Unquote(imp.Path.Value)
			switch p {
			case "sync":
				imp.Path.Value = strconv.Quote(shimImport)
				if imp.Name == nil {
					imp.Name = ast.NewIdent("sync")
				}
				changed = true
			case "sync/atomic":
				imp.Path.Value = strconv.Quote(atomicImport)
				if imp.Name == nil {
					imp.Name = ast.NewIdent("atomic")
				}
				changed = true
			}
		}
		if *goMode != "off" && rewriteGo(f, shimImport, *goMode == "all") {
			changed = true
		}
		if rewriteProcs(f, shimImport) {
			changed = true
		}
		if !changed {
			return nil
		}
		var buf bytes.Buffer
		must(format.Node(&buf, fset, f))
		rel, _ := filepath.Rel(*repo, path)
		dst := filepath.Join(ovDir, rel)
		must(os.MkdirAll(filepath.Dir(dst), 0o755))
		must(os.WriteFile(dst, buf.Bytes(), 0o644))
		replace[path] = dst
		rewritten++
		return nil
	})
	must(err)
	replace[filepath.Join(*repo, "verifsync", "vsync.go")] = *shim
	replace[filepath.Join(*repo, "verifatomic", "vatomic.go")] = *shimAtomic
	js, _ := json.MarshalIndent(map[string]any{"Replace": replace}, "", " ")
	must(os.WriteFile(filepath.Join(*out, "overlay.json"), js, 0o644))
	os.WriteFile(filepath.Join(*out, "overlay.gomode"), []byte(*goMode+"\n"), 0o644)
	fmt.Fprintf(os.Stderr, "overlaytool: %d file(s) rewritten to use %s (go statements: %s)\n", rewritten, shimImport, *goMode)
}

// rewriteGo turns `go f(a, b)` into `verifgo.Go2(f, a, b)`: f, a and b are still evaluated by
// the goroutine that executes the statement, and the shim decides whether the call runs as
// a thread of the explorer or as an ordinary goroutine.  Calls the Go0..Go6 helpers cannot
// express (variadic calls, more than six arguments, function literals with results) are left
// alone; with all=false only function literals are rewritten (their signature is visible).
func rewriteGo(f *ast.File, shimImport string, all bool) bool {
	n := 0
	ast.Inspect(f, func(node ast.Node) bool {
		var list *[]ast.Stmt
		switch b := node.(type) {
		case *ast.BlockStmt:
			list = &b.List
		case *ast.CaseClause:
			list = &b.Body
		case *ast.CommClause:
			list = &b.Body
		}
		if list == nil {
			return true
		}
		for i, st := range *list {
			if ls, ok := st.(*ast.LabeledStmt); ok {
				if g, ok := ls.Stmt.(*ast.GoStmt); ok {
					if r := goCall(g, all); r != nil {
						ls.Stmt = r
						n++
					}
				}
				continue
			}
			g, ok := st.(*ast.GoStmt)
			if !ok {
				continue
			}
			if r := goCall(g, all); r != nil {
				(*list)[i] = r
				n++
			}
		}
		return true
	})
	if n == 0 {
		return false
	}
	spec := &ast.ImportSpec{Name: ast.NewIdent("verifgo"), Path: &ast.BasicLit{Kind: token.STRING, Value: strconv.Quote(shimImport)}}
	decl := &ast.GenDecl{Tok: token.IMPORT, Specs: []ast.Spec{spec}}
	// after the existing import declarations
	at := 0
	for i, d := range f.Decls {
		if gd, ok := d.(*ast.GenDecl); ok && gd.Tok == token.IMPORT {
			at = i + 1
		}
	}
	f.Decls = append(f.Decls[:at], append([]ast.Decl{decl}, f.Decls[at:]...)...)
	f.Imports = append(f.Imports, spec)
	return true
}

// rewriteProcs turns runtime.GOMAXPROCS(x) and runtime.NumCPU() into calls of the shim, so that the
// harness decides what the library is told about the machine (under the schedule explorer the real
// GOMAXPROCS is 1; code that splits work by the number of processors would never split there).
func rewriteProcs(f *ast.File, shimImport string) bool {
	rt := ""
	for _, imp := range f.Imports {
		if p, _ := strconv.Unquote(imp.Path.Value); p == "runtime" {
			rt = "runtime"
			if imp.Name != nil {
				rt = imp.Name.Name
			}
		}
	}
	if rt == "" || rt == "_" || rt == "." {
		return false
	}
	n := 0
	ast.Inspect(f, func(node ast.Node) bool {
		sel, ok := node.(*ast.SelectorExpr)
		if !ok {
			return true
		}
		if x, ok := sel.X.(*ast.Ident); ok && x.Name == rt && x.Obj == nil && (sel.Sel.Name == "GOMAXPROCS" || sel.Sel.Name == "NumCPU") {
			x.Name = "verifprocs"
			n++
		}
		return true
	})
	if n == 0 {
		return false
	}
	spec := &ast.ImportSpec{Name: ast.NewIdent("verifprocs"), Path: &ast.BasicLit{Kind: token.STRING, Value: strconv.Quote(shimImport)}}
	decl := &ast.GenDecl{Tok: token.IMPORT, Specs: []ast.Spec{spec}}
	at := 0
	for i, d := range f.Decls {
		if gd, ok := d.(*ast.GenDecl); ok && gd.Tok == token.IMPORT {
			at = i + 1
		}
	}
	// keep the import of package runtime used even when these were its only uses
	keep := &ast.GenDecl{Tok: token.VAR, Specs: []ast.Spec{&ast.ValueSpec{Names: []*ast.Ident{ast.NewIdent("_")}, Values: []ast.Expr{&ast.SelectorExpr{X: ast.NewIdent(rt), Sel: ast.NewIdent("Version")}}}}}
	f.Decls = append(f.Decls[:at], append([]ast.Decl{decl, keep}, f.Decls[at:]...)...)
	f.Imports = append(f.Imports, spec)
	return true
}

func goCall(g *ast.GoStmt, all bool) ast.Stmt {
	call := g.Call
	if call.Ellipsis.IsValid() || len(call.Args) > 6 {
		return nil
	}
	fun := call.Fun
	for {
		p, ok := fun.(*ast.ParenExpr)
		if !ok {
			break
		}
		fun = p.X
	}
	if lit, ok := fun.(*ast.FuncLit); ok {
		if lit.Type.Results != nil && len(lit.Type.Results.List) > 0 {
			return nil
		}
		if ps := lit.Type.Params; ps != nil {
			for _, fld := range ps.List {
				if _, variadic := fld.Type.(*ast.Ellipsis); variadic {
					return nil
				}
			}
		}
	} else if !all {
		return nil
	}
	args := append([]ast.Expr{call.Fun}, call.Args...)
	return &ast.ExprStmt{X: &ast.CallExpr{
		Fun:  &ast.SelectorExpr{X: ast.NewIdent("verifgo"), Sel: ast.NewIdent("Go" + strconv.Itoa(len(call.Args)))},
		Args: args,
	}}
}

func modulePath(gomod string) string {
	b, err := os.ReadFile(gomod)
	must(err)
	for _, l := range strings.Split(string(b), "\n") {
		l = strings.TrimSpace(l)
		if strings.HasPrefix(l, "module ") {
			return strings.TrimSpace(strings.TrimPrefix(l, "module "))
		}
	}
	panic("no module line in " + gomod)
}

func must(err error) {
	if err != nil {
		fmt.Fprintln(os.Stderr, "overlaytool:", err)
		os.Exit(2)
	}
}
