//go:build verif

package props

import (
	"encoding/json"
	"fmt"

	"pipelined.dev/signal"
	"verif/mc/core"
	"verif/mc/dyn"
	"verif/mc/poolctl"
)

// C20 — empty and zero-channel buffers are inert.

type c20Case struct {
	Op      string // shape | slice | appendsample | append | write | read | wstriped | rstriped | conv-to | conv-from | channel | pool | chanlen
	T, T2   string // element type of the degenerate buffer / of the slice or partner
	C, L, K int    // allocator of the degenerate buffer
	N       int    // slice length / partner length / ChannelLength argument
	Partner string // conv: "same" (equally degenerate) or "normal" (same channel count, 2 frames)
}

func c20Run(cs c20Case) []F {
	return core.Guard("inert", func() []F { return c20RunRaw(cs) })
}

func c20RunRaw(cs c20Case) (fs []F) {
	fail := func(kind, format string, a ...any) {
		fs = append(fs, core.Failf("inert/"+cs.Op+"/"+kind, "%+v: %s", cs, fmt.Sprintf(format, a...)))
	}
	if cs.Op == "chanlen" {
		var g int
		if p, msg := dyn.Try(func() { g = signal.ChannelLength(cs.N, 0) }); p {
			fail("panic", "ChannelLength(%d, 0) panicked: %s", cs.N, msg)
		} else if g != 0 {
			fail("count", "ChannelLength(%d, 0) = %d, want 0", cs.N, g)
		}
		return
	}
	if cs.Op == "alias" {
		return c20Alias(cs)
	}
	t := typeByName(cs.T)
	t2 := t
	if cs.T2 != "" {
		t2 = typeByName(cs.T2)
	}
	a := al(cs.C, cs.L, cs.K)
	var b dyn.Buf
	if p, msg := dyn.Try(func() { b = dyn.Alloc(t, a) }); p {
		fail("panic", "Alloc panicked: %s", msg)
		return
	}
	noStorage := cs.C == 0 || cs.K == 0
	wantH := header{cs.C, dyn.Types[t].Bits, cs.C * cs.L, cs.C * cs.K, cs.L, cs.K}
	if cs.C == 0 {
		wantH = header{0, dyn.Types[t].Bits, 0, 0, 0, 0}
	}
	checkShape := func(when string) {
		if h := hdr(b); h != wantH {
			fail("shape", "%s: shape %+v, want %+v", when, h, wantH)
		}
	}
	guard := func(what string, f func()) bool {
		if p, msg := dyn.Try(f); p {
			fail("panic", "%s panicked: %s", what, msg)
			return false
		}
		return true
	}
	sentSl := func(tt, n int) dyn.Sl {
		sl := dyn.NewSl(tt, n)
		for i := 0; i < n; i++ {
			sl.Set(i, dyn.Tok(tt, 55))
		}
		return sl
	}
	slOK := func(sl dyn.Sl, what string) {
		for i := 0; i < sl.Len(); i++ {
			if sl.Get(i).Tok() != 55 {
				fail("transfer", "%s: caller's slice element %d changed to %v", what, i, sl.Get(i))
			}
		}
	}
	switch cs.Op {
	case "shape":
		guard("shape methods", func() { checkShape("fresh") })
	case "slice":
		var s2 dyn.Buf
		if guard("Slice(0,0)", func() { s2 = b.Slice(0, 0) }) {
			if h := hdr(s2); h.Len != 0 || h.Length != 0 || h.Ch != cs.C || h.Cap != wantH.Cap {
				fail("shape", "Slice(0,0) has shape %+v", h)
			}
		}
		checkShape("after Slice")
	case "appendsample":
		for i := 0; i < 3; i++ {
			guard("AppendSample", func() { b.AppendSample(dyn.Tok(t, 7)) })
		}
		checkShape("after 3 AppendSample calls")
	case "append":
		e := dyn.Alloc(t, al(cs.C, 0, cs.N))
		guard("Append(empty)", func() { b.Append(e) })
		if b.Len() != wantH.Len || b.Length() != wantH.Length {
			fail("shape", "appending an empty buffer changed the length to Len %d / Length %d", b.Len(), b.Length())
		}
		if noStorage && (b.Len() != 0 || b.Length() != 0) {
			fail("shape", "not empty after appending an empty buffer")
		}
		if noStorage {
			if h := hdr(b); h != wantH {
				fail("shape", "a buffer without storage changed shape when an empty buffer of capacity %d frames was appended: %+v, was %+v", cs.N, h, wantH)
			}
			guard("AppendSample after Append(empty)", func() { b.AppendSample(dyn.Tok(t, 7)) })
			if b.Len() != 0 {
				fail("shape", "after appending an empty buffer of capacity %d frames the buffer without storage accepts samples (Len %d)", cs.N, b.Len())
			}
		}
	case "write", "read":
		sl := sentSl(t2, cs.N)
		ret := -1
		if cs.Op == "write" {
			guard("Write", func() { ret = dyn.Write(sl, b) })
		} else {
			guard("Read", func() { ret = dyn.Read(b, sl) })
		}
		if ret != 0 && ret != -1 {
			fail("count", "returned %d, want 0", ret)
		}
		slOK(sl, cs.Op)
		checkShape("after " + cs.Op)
	case "wstriped", "rstriped":
		sls := make([]dyn.Sl, cs.C)
		for i := range sls {
			switch {
			case cs.N == -1 || cs.N == -2 && i%2 == 0: // nil nested slices: all of them, or every other one
				sls[i] = dyn.NilSl(t2)
			case cs.N == -2:
				sls[i] = sentSl(t2, 2)
			default:
				sls[i] = sentSl(t2, cs.N)
			}
		}
		ret := -1
		if cs.Op == "wstriped" {
			guard("WriteStriped", func() { ret = dyn.WriteStriped(t2, sls, cs.C == 0 && cs.N == 0, b) })
		} else {
			guard("ReadStriped", func() { ret = dyn.ReadStriped(b, t2, sls, cs.C == 0 && cs.N == 0) })
		}
		if ret != 0 && ret != -1 {
			fail("count", "returned %d, want 0", ret)
		}
		for _, sl := range sls {
			slOK(sl, cs.Op)
		}
		checkShape("after " + cs.Op)
	case "conv-to", "conv-from":
		var partner dyn.Buf
		if cs.Partner == "same" {
			partner = dyn.Alloc(t2, a)
		} else {
			partner = dyn.Alloc(t2, al(cs.C, 2, 3))
			fill(full(partner), 1)
		}
		sn := takeSnap20(partner)
		ret := -1
		if cs.Op == "conv-to" { // degenerate buffer is the destination
			guard("conversion into it", func() { ret = dyn.Conv(partner, b) })
		} else {
			guard("conversion from it", func() { ret = dyn.Conv(b, partner) })
		}
		if ret != 0 && ret != -1 {
			fail("count", "%s returned %d, want 0", dyn.ConvName(partner.T(), b.T()), ret)
		}
		if df := sn.diff(partner); df != "" {
			fail("transfer", "partner buffer: %s", df)
		}
		checkShape("after conversion")
	case "channel":
		for ch := 0; ch <= cs.C; ch++ {
			guard("Channel shape methods", func() {
				v := b.Channel(ch)
				if v.Length() != wantH.Length || v.Capacity() != wantH.Capacity {
					fail("shape", "Channel(%d): Length %d Capacity %d, parent %d/%d", ch, v.Length(), v.Capacity(), wantH.Length, wantH.Capacity)
				}
				if v.Channels() != 1 {
					fail("shape", "Channel(%d).Channels() = %d", ch, v.Channels())
				}
			})
		}
	case "pool":
		ctl := poolctl.NewSeq(func(n int) int { return 0 })
		defer ctl.Bind()()
		var p dyn.Pool
		guard("PoolAlloc", func() { p = dyn.NewPool(t, a) })
		if p == nil {
			return
		}
		for round := 0; round < 2; round++ {
			var g dyn.Buf
			if !guard("Get", func() { g = p.Get() }) {
				return
			}
			if h := hdr(g); h != wantH {
				fail("shape", "pooled buffer (round %d) has shape %+v, want %+v", round, h, wantH)
			}
			if noStorage {
				guard("AppendSample on pooled buffer", func() { g.AppendSample(dyn.Tok(t, 3)) })
				if g.Len() != 0 {
					fail("shape", "AppendSample on a pooled buffer without storage gave Len %d", g.Len())
				}
			}
			guard("Put", func() { p.Put(g) })
		}
	case "pool-append":
		// a buffer taken from a pool of capacity 0 is given storage by appending to it and is kept; the
		// next buffer from the pool is again an inert one, and another object
		ctl := poolctl.NewSeq(func(n int) int { return 0 })
		defer ctl.Bind()()
		var p dyn.Pool
		guard("PoolAlloc", func() { p = dyn.NewPool(t, a) })
		if p == nil {
			return
		}
		var g1, g2 dyn.Buf
		if !guard("Get", func() { g1 = p.Get() }) {
			return
		}
		src := dyn.Alloc(t, al(cs.C, 2, 2))
		for i := 0; i < src.Len(); i++ {
			src.SetSample(i, dyn.Tok(t, tk(int64(i+1))))
		}
		guard("Append(non-empty) to the pooled buffer", func() { g1.Append(src) })
		h1 := hdr(g1)
		if !guard("second Get", func() { g2 = p.Get() }) {
			return
		}
		if g2.Ptr() == g1.Ptr() {
			fail("shape", "two buffers taken from the pool without a Put in between are the same object")
		}
		if h := hdr(g2); h != wantH {
			fail("shape", "the second buffer from the pool has shape %+v, want %+v (the first one was appended to and kept)", h, wantH)
		}
		sl := sentSl(t, 3)
		ret := -1
		guard("Read", func() { ret = dyn.Read(g2, sl) })
		if ret != 0 {
			fail("count", "Read from the second pooled buffer returned %d", ret)
		}
		slOK(sl, "Read")
		guard("AppendSample", func() { g2.AppendSample(dyn.Tok(t, 9)) })
		if h := hdr(g1); h != h1 {
			fail("transfer", "using the second pooled buffer changed the first one from %+v to %+v", h1, h)
		}
		for i := 0; i < g1.Len() && i < src.Len(); i++ {
			if g := g1.Sample(i).Tok(); g != tk(int64(i+1)) {
				fail("transfer", "using the second pooled buffer changed sample %d of the first one to %d", i, g)
			}
		}
	}
	return
}

// c20Alias: the zero-length buffer is a window of the other operand's storage: parent of K frames
// (non-empty, recognisable contents), window = parent.Slice(N, N), or one level deeper
// parent.Slice(1, K).Slice(N-1, N-1) when L == 1.  Conversions of the same element type in both
// directions, reads and writes: count 0, no panic, nothing transferred.
func c20Alias(cs c20Case) (fs []F) {
	t := typeByName(cs.T)
	fail := func(kind, format string, a ...any) {
		fs = append(fs, core.Failf("inert/alias/"+kind, "%+v: %s", cs, fmt.Sprintf(format, a...)))
	}
	parent := dyn.Alloc(t, al(cs.C, cs.K, cs.K))
	fill(parent, 1)
	var w dyn.Buf
	if cs.L == 1 && cs.N >= 1 {
		w = parent.Slice(1, cs.K).Slice(cs.N-1, cs.N-1)
	} else {
		w = parent.Slice(cs.N, cs.N)
	}
	before := takeSnap20(parent)
	hw := hdr(w)
	if want := (header{cs.C, dyn.Types[t].Bits, 0, cs.C * (cs.K - cs.N), 0, cs.K - cs.N}); hw != want {
		fail("shape", "the zero-length window has shape %+v, want %+v", hw, want)
		return
	}
	try := func(what string, f func() int) {
		ret := -1
		if p, msg := dyn.Try(func() { ret = f() }); p {
			fail("panic", "%s panicked: %s", what, msg)
		} else if ret != 0 {
			fail("count", "%s returned %d, want 0", what, ret)
		}
		if d := before.diff(parent); d != "" {
			fail("transfer", "%s changed the parent: %s", what, d)
		}
		if h := hdr(w); h != hw {
			fail("shape", "%s changed the window's shape from %+v to %+v", what, hw, h)
		}
	}
	try("conversion parent -> its zero-length window", func() int { return dyn.Conv(parent, w) })
	try("conversion zero-length window -> its parent", func() int { return dyn.Conv(w, parent) })
	try("conversion of the zero-length window into itself", func() int { return dyn.Conv(w, w) })
	sl := dyn.NewSl(t, 3)
	for i := 0; i < 3; i++ {
		sl.Set(i, dyn.Tok(t, 55))
	}
	try("Read from the zero-length window", func() int { return dyn.Read(w, sl) })
	for i := 0; i < 3; i++ {
		if sl.Get(i).Tok() != 55 {
			fail("transfer", "Read changed the caller's slice")
		}
	}
	try("Write into the zero-length window", func() int { return dyn.Write(sl, w) })
	if cs.K == cs.N {
		// the window begins at the parent's capacity: it has no storage at all, single-sample appends are no-ops
		try("AppendSample x3 on the window without capacity", func() int {
			for i := 0; i < 3; i++ {
				w.AppendSample(dyn.Tok(t, 9))
			}
			return 0
		})
		try("Read from the window without capacity after the appends", func() int { return dyn.Read(w, sl) })
	}
	return
}

type snap20 struct {
	h header
	v []dyn.Val
}

func takeSnap20(b dyn.Buf) snap20 {
	s := snap20{h: hdr(b)}
	if b.Channels() == 0 {
		return s
	}
	fb := full(b)
	for i := 0; i < fb.Len(); i++ {
		s.v = append(s.v, fb.Sample(i))
	}
	return s
}

func (s snap20) diff(b dyn.Buf) string {
	if h := hdr(b); h != s.h {
		return fmt.Sprintf("shape changed from %+v to %+v", s.h, h)
	}
	if b.Channels() == 0 {
		return ""
	}
	fb := full(b)
	for i := 0; i < fb.Len(); i++ {
		if g := fb.Sample(i); !sameBits(g, s.v[i]) {
			return fmt.Sprintf("sample %d changed from %v to %v", i, s.v[i], g)
		}
	}
	return ""
}

func init() {
	core.Register(&core.Prop{
		ID: "C20", Level: "exploration", Design: "§5 C20",
		Run: func(c *core.Ctx) {
			var cases []c20Case
			for n := 0; n <= 5; n++ {
				cases = append(cases, c20Case{Op: "chanlen", N: n})
			}
			type shape struct{ C, L, K int }
			var shapes []shape
			for C := 0; C <= 3; C++ {
				for K := 0; K <= 3; K++ {
					for L := 0; L <= K; L++ {
						if C == 0 || K == 0 || L == 0 {
							shapes = append(shapes, shape{C, L, K})
						}
					}
				}
			}
			// zero channels with a length above the capacity: still an allocator "with one field equal to 0"
			shapes = append(shapes, shape{0, 1, 0}, shape{0, 4, 0}, shape{0, 8, 4}, shape{0, 3, 2})
			wide := []shape{{9, 0, 0}, {9, 0, 3}, {65, 0, 0}, {65, 0, 2}, {256, 0, 0}, {256, 0, 2}, {300, 0, 1}, {1024, 0, 0}, {2, 0, 1100}, {0, 1100, 1100}, {3, 0, 5000}}
			for t := 0; t < dyn.NB; t++ {
				shs := shapes
				if t == dyn.Int8 || t == dyn.Uint32 || t == dyn.Float64 || t == dyn.Int64 {
					shs = append(append([]shape{}, shapes...), wide...)
				}
				for _, sh := range shs {
					base := c20Case{T: tn(t), C: sh.C, L: sh.L, K: sh.K}
					noStorage := sh.C == 0 || sh.K == 0
					add := func(op string, mod func(*c20Case)) {
						cs := base
						cs.Op = op
						if mod != nil {
							mod(&cs)
						}
						cases = append(cases, cs)
					}
					add("shape", nil)
					add("slice", nil)
					add("channel", nil)
					add("pool", nil)
					if noStorage {
						add("appendsample", nil)
					}
					for _, n := range []int{0, 1, 2, 600, 5000} {
						add("append", func(cs *c20Case) { cs.N = n })
					}
					if t == dyn.Int8 && sh.C > 0 && sh.C <= 3 { // empty sources with very large capacities
						for _, n := range []int{1<<20 + 1, 1 << 23, 1<<24 + 5, 1<<25 + 1} {
							add("append", func(cs *c20Case) { cs.N = n / sh.C })
						}
					}
					if sh.C > 0 && sh.K == 0 {
						add("pool-append", nil)
					}
					// reads, writes and conversions: every zero-length buffer (incl. capacity > 0)
					for t2 := 0; t2 < dyn.NB; t2++ {
						// conversions: all 169 instantiations on every degenerate shape
						for _, p := range []string{"same", "normal"} {
							add("conv-to", func(cs *c20Case) { cs.T2, cs.Partner = tn(t2), p })
							add("conv-from", func(cs *c20Case) { cs.T2, cs.Partner = tn(t2), p })
						}
						if t2 != t && !(sh.C == 0 && sh.K == 0 && sh.L == 0) && t2 != dyn.Float64 && t2 != dyn.Int8 {
							continue // reads/writes: all 169 pairs at the zero allocator; same type + two partners elsewhere
						}
						for n := 0; n <= 3; n++ {
							add("write", func(cs *c20Case) { cs.T2, cs.N = tn(t2), n })
							add("read", func(cs *c20Case) { cs.T2, cs.N = tn(t2), n })
							add("wstriped", func(cs *c20Case) { cs.T2, cs.N = tn(t2), n })
							add("rstriped", func(cs *c20Case) { cs.T2, cs.N = tn(t2), n })
						}
						for n := -2; n <= -1; n++ { // nil nested slices
							add("wstriped", func(cs *c20Case) { cs.T2, cs.N = tn(t2), n })
							add("rstriped", func(cs *c20Case) { cs.T2, cs.N = tn(t2), n })
						}
					}
				}
			}
			// zero-length windows of the other operand's own storage (start, middle, end, nested)
			for t := 0; t < dyn.NB; t++ {
				for C := 1; C <= 3; C++ {
					for _, K := range []int{3, 40} {
						for _, N := range []int{0, 1, K / 2, K} {
							cases = append(cases, c20Case{Op: "alias", T: tn(t), C: C, K: K, N: N}, c20Case{Op: "alias", T: tn(t), C: C, K: K, N: N, L: 1})
						}
					}
				}
			}
			c.ParallelFor(len(cases), func(i int) { c.Check(cases[i], true, c20Run(cases[i])) })
			c.Sample(cases[3])
			c.Sample(cases[len(cases)/3])
			c.Sample(cases[len(cases)-1])
			c.Set("rule", "ChannelLength(n,0) for n in 0..5; every allocator with Channels, Length, Capacity in 0..3, L<=K and at least one of them 0 (incl. the zero value) x 13 element types, plus 9- and 65-channel and 1100/5000-frame-capacity degenerate shapes for 4 types, x {shape methods, Slice(0,0), Channel(c) shape methods, pool Get/AppendSample/Put twice, AppendSample x3 (no storage), Append of an empty buffer of capacity 0, 1, 2, 600, 5000 frames (int8: also 2^20+1 .. 2^25+1 samples), a pool of capacity 0 whose first buffer is appended to and kept while a second one is taken, Write/Read/WriteStriped/ReadStriped with slices of length 0..3, every conversion into and out of it (all 169 instantiations) against an equally degenerate and a normal 2-frame partner}; slice element types for reads/writes: all 13 at the zero allocator, same type + int8 + float64 elsewhere; oracle: no panic, lengths/capacities 0 where stated, every returned count 0, caller slices and partner buffers untouched; all cases distinct and non-trivial")
			c.Assume("Sample/SetSample have no valid index on these buffers and are not called")
		},
		RunCase: func(c *core.Ctx, raw json.RawMessage) []F { return c20Run(decode[c20Case](raw)) },
	})
}
