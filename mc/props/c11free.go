package props

import (
	"fmt"
	"runtime"
	"sync"
	"sync/atomic"

	"verif/mc/core"
	"verif/mc/dyn"
)

// C11FREE — supplement of C11 (thorough tier only, never the deciding step): the same
// get / check fresh / stamp / verify / put cycles, free-running on the REAL sync.Pool in a
// -race build, many goroutines, several GOMAXPROCS values, forced garbage collections.
// It exists because the deciding runs replace sync.Pool by a shim; it can only report true
// races or overlaps.

func c11FreeRun(G, M, procs, t, C, L, K int, byValue bool) (fails []string) {
	old := runtime.GOMAXPROCS(procs)
	defer runtime.GOMAXPROCS(old)
	shared := dyn.NewPool(t, al(C, L, K))
	var mu sync.Mutex
	var wg sync.WaitGroup
	var cycles atomic.Int64
	want := header{C, dyn.Types[t].Bits, C * L, C * K, L, K}
	for g := 0; g < G; g++ {
		wg.Add(1)
		p := shared
		if byValue {
			p = shared.Copy()
		}
		go func(g int) {
			defer wg.Done()
			fail := func(format string, a ...any) {
				mu.Lock()
				if len(fails) < 10 {
					fails = append(fails, fmt.Sprintf("goroutine %d: ", g)+fmt.Sprintf(format, a...))
				}
				mu.Unlock()
			}
			for c := 0; c < M; c++ {
				b := p.Get()
				if h := hdr(b); h != want {
					fail("cycle %d: shape %+v, fresh %+v", c, h, want)
				}
				fb := full(b)
				n := fb.Len()
				for i := 0; i < n; i++ {
					if v := fb.Sample(i); v.B != 0 {
						fail("cycle %d: not zero: sample %d reads %v", c, i, v)
						break
					}
				}
				tok := dyn.Tok(t, int64(1+(g*7+c)%120))
				for i := 0; i < n/2; i++ {
					fb.SetSample(i, tok)
				}
				if (g+c)%3 == 0 {
					runtime.Gosched()
				}
				for i := n / 2; i < n; i++ {
					fb.SetSample(i, tok)
				}
				if (g+c)%5 == 0 {
					runtime.Gosched()
				}
				for i := 0; i < n; i++ {
					if v := fb.Sample(i); v != tok {
						fail("cycle %d: sample %d changed from %v to %v while held", c, i, tok, v)
						break
					}
				}
				p.Put(b)
				if cycles.Add(1)%257 == 0 {
					runtime.GC()
				}
			}
		}(g)
	}
	wg.Wait()
	return
}

func init() {
	core.Register(&core.Prop{
		ID: "C11FREE", Level: "other",
		Run: func(c *core.Ctx) {},
		Worker: func(c *core.Ctx, arg string) int {
			res := &core.WorkerResult{CanaryOK: true}
			before := core.RaceErrors()
			var runs int64
			for _, procs := range []int{1, 4, 16} {
				for _, sh := range [][4]int{{dyn.Int8, 1, 0, 2}, {dyn.Float64, 2, 1, 2}, {dyn.Int32, 3, 0, 64}} {
					for _, bv := range []bool{false, true} {
						fails := c11FreeRun(64, 200, procs, sh[0], sh[1], sh[2], sh[3], bv)
						runs++
						for _, m := range fails {
							res.Violations = append(res.Violations, core.WorkerViolation{Case: []byte(`{"freerun":true}`), Failure: core.Failf("Pool/freerun", "free-running on the real sync.Pool (GOMAXPROCS %d): %s", procs, m)})
						}
					}
				}
			}
			if n := core.RaceErrors() - before; n > 0 {
				res.Violations = append(res.Violations, core.WorkerViolation{Case: []byte(`{"freerun":true}`), Failure: core.Failf("Pool/freerun-data-race", "the race detector reported %d data race(s) in the free-running pass on the real sync.Pool", n)})
			}
			res.Executions = runs
			core.EmitWorkerResult(res)
			return 0
		},
	})
}
